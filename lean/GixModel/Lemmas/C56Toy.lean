import GixModel.Lemmas.C56
/-
Non-vacuity of the zlib contracts: a small codec that provably satisfies `CompressorOk` and
`DecompressorOk` for one and the same `IsStream`. (The codec the Lean DRIVER runs is the stored-block
zlib codec of Model/C56.lean; this one exists only to show that the hypotheses of the C56/C11
theorems can be met together. Each content byte `b` travels as the pair `1 b`, the stream ends with `0`.)
-/
namespace GixModel.C56.Toy
open GixModel GixModel.C56

def pairs (d : Bytes) : Bytes := d.flatMap fun b => [1, b]

def enc (d : Bytes) : Bytes := pairs d ++ [0]

def IsToy (z d : Bytes) : Prop := z = enc d

theorem pairs_length (d : Bytes) : (pairs d).length = 2 * d.length := by
  induction d with
  | nil => rfl
  | cons b bs ih => simp only [pairs, List.flatMap_cons, List.length_append, List.length_cons, List.length_nil] at ih ⊢; omega

theorem pairs_append (a b : Bytes) : pairs (a ++ b) = pairs a ++ pairs b := by
  simp [pairs, List.flatMap_append]

theorem enc_cons (x : UInt8) (xs : Bytes) : enc (x :: xs) = 1 :: x :: enc xs := by
  simp [enc, pairs]

theorem enc_length (d : Bytes) : (enc d).length = 2 * d.length + 1 := by
  simp [enc, pairs_length]

/-! ## the compressor -/

/-- how much of `inp` one call takes: all of it, unless the output room (two bytes per byte, one for
the terminator) is smaller -/
def takeN (inp : Bytes) (cap : Nat) : Nat := min inp.length ((cap - 1) / 2)

/-- the call ends the stream: `Finish`, everything taken, room for the terminator -/
def isFin (inp : Bytes) (cap : Nat) (fl : Flush) : Bool :=
  decide (fl = .finish) && decide (takeN inp cap = inp.length) && decide (0 < cap)

def stepOf (inp : Bytes) (cap : Nat) (fl : Flush) : Step Bool :=
  { state := isFin inp cap fl, consumed := takeN inp cap,
    produced := pairs (inp.take (takeN inp cap)) ++ (if isFin inp cap fl then [0] else []),
    status := if isFin inp cap fl then .streamEnd else if takeN inp cap = 0 then .bufError else .ok }

def compress (ended : Bool) (inp : Bytes) (cap : Nat) (fl : Flush) : Option (Step Bool) :=
  if ended then
    (if fl = .finish then some { state := true, consumed := 0, produced := [], status := .streamEnd } else none)
  else some (stepOf inp cap fl)

def compressor : Compressor := { σ := Bool, init := false, compress := compress }

theorem half_buf_pos : 1 ≤ (BUF_SIZE - 1) / 2 := by decide

theorem compress_false {inp : Bytes} {cap : Nat} {fl : Flush} {r : Step Bool}
    (h : compressor.compress false inp cap fl = some r) : r = stepOf inp cap fl := by
  simp only [compressor, compress, Bool.false_eq_true, if_false] at h
  exact (Option.some.inj h).symm

theorem takeN_pos (inp : Bytes) (h : inp ≠ []) : 0 < takeN inp BUF_SIZE := by
  have := half_buf_pos
  have : 0 < inp.length := by
    cases inp with
    | nil => exact absurd rfl h
    | cons _ _ => simp
  simp only [takeN]; omega

def compressorOk : CompressorOk compressor IsToy where
  Inv := fun s i o => s = false ∧ o = pairs i
  rank := fun _ n _ => n
  inv_init := ⟨rfl, rfl⟩
  total := by
    intro s i o inp fl h
    obtain ⟨hs, _⟩ := h
    subst hs
    exact ⟨_, rfl⟩
  bounded := by
    intro s i o inp fl r h hr
    obtain ⟨hs, _⟩ := h
    subst hs
    have := compress_false hr
    subst this
    have ht : takeN inp BUF_SIZE ≤ (BUF_SIZE - 1) / 2 := Nat.min_le_right _ _
    have ht2 : takeN inp BUF_SIZE ≤ inp.length := Nat.min_le_left _ _
    have hb := BUF_SIZE_pos
    refine ⟨ht2, ?_⟩
    simp only [stepOf, List.length_append, pairs_length, List.length_take]
    split <;> simp <;> omega
  step := by
    intro s i o inp fl r h hr hne
    obtain ⟨hs, ho⟩ := h
    subst hs
    have := compress_false hr
    subst this
    by_cases hf : isFin inp BUF_SIZE fl = true
    · simp [stepOf, hf] at hne
    · have hf2 : isFin inp BUF_SIZE fl = false := by simpa using hf
      simp only [stepOf, hf2, Bool.false_eq_true, if_false, List.append_nil]
      exact ⟨rfl, by rw [ho, pairs_append]⟩
  stream_end := by
    intro s i o inp fl r h hr he
    obtain ⟨hs, ho⟩ := h
    subst hs
    have := compress_false hr
    subst this
    by_cases hf : isFin inp BUF_SIZE fl = true
    · simp only [stepOf, hf, if_true]
      have hf' := hf
      simp only [isFin, Bool.and_eq_true, decide_eq_true_eq] at hf'
      refine ⟨hf'.1.1, ?_⟩
      simp only [IsToy, enc, ho, pairs_append, List.append_assoc]
    · have hf2 : isFin inp BUF_SIZE fl = false := by simpa using hf
      simp only [stepOf, hf2, Bool.false_eq_true, if_false] at he
      split at he <;> cases he
  progress_none := by
    intro s i o inp r h hne hr
    obtain ⟨hs, _⟩ := h
    subst hs
    have := compress_false hr
    subst this
    left
    exact takeN_pos inp hne
  progress_finish := by
    intro s i o inp r h hr
    obtain ⟨hs, _⟩ := h
    subst hs
    have := compress_false hr
    subst this
    have := half_buf_pos
    have hb := BUF_SIZE_pos
    by_cases hall : takeN inp BUF_SIZE = inp.length
    · left
      simp [stepOf, isFin, hall, hb]
    · right; left
      simp only [stepOf, takeN] at hall ⊢
      omega
  rank_decr := by
    intro s i o inp fl r h hr hne hprog
    obtain ⟨hs, _⟩ := h
    subst hs
    have := compress_false hr
    subst this
    by_cases hf : isFin inp BUF_SIZE fl = true
    · simp [stepOf, hf] at hne
    · have hf2 : isFin inp BUF_SIZE fl = false := by simpa using hf
      simp only [stepOf, hf2, Bool.false_eq_true, if_false, List.append_nil] at hprog ⊢
      have hn : 0 < takeN inp BUF_SIZE := by
        rcases hprog with h | h
        · exact h
        · by_cases h0 : takeN inp BUF_SIZE = 0
          · rw [h0] at h; simp [pairs] at h
          · omega
      have : takeN inp BUF_SIZE ≤ inp.length := Nat.min_le_left _ _
      omega

/-! ## the decompressor -/

inductive Ph | marker | data | done
  deriving DecidableEq, Repr

/-- byte-wise: a marker `1` announces a content byte, which needs room in the output; `0` ends the stream -/
def run : Nat → Ph → Bytes → Nat → Nat → Bytes → Option (Ph × Nat × Bytes)
  | 0, p, _, _, c, acc => some (p, c, acc)
  | fuel + 1, p, inp, room, c, acc =>
    match p with
    | .done => some (p, c, acc)
    | .marker =>
      match inp with
      | [] => some (p, c, acc)
      | x :: rest =>
        if x = 0 then some (.done, c + 1, acc)
        else if x = 1 then run fuel .data rest room (c + 1) acc
        else none
    | .data =>
      match inp with
      | [] => some (p, c, acc)
      | x :: rest =>
        if room = 0 then some (p, c, acc)
        else run fuel .marker rest (room - 1) (c + 1) (acc ++ [x])

def decompress (p : Ph) (inp : Bytes) (cap : Nat) (_finish : Bool) : Option (Step Ph) :=
  match run (inp.length + 1) p inp cap 0 [] with
  | none => none
  | some (p', c, out) =>
    some { state := p', consumed := c, produced := out,
           status := if p' = .done then .streamEnd else if c = 0 ∧ out = [] then .bufError else .ok }

def decompressor : Decompressor := { σ := Ph, init := .marker, decompress := decompress }

/-- what the stream looks like from a state on, given the content still to come -/
def remainder : Ph → Bytes → Bytes
  | .marker, ds => enc ds
  | .data, x :: xs => x :: enc xs
  | .data, [] => []
  | .done, _ => []

def posOf : Ph → Nat
  | .data => 1
  | _ => 0

/-- one call, described completely: it succeeds on any prefix of the stream's remainder, what it wrote is
a prefix of the content to come, positions advance consistently, and it stops only at the end of the
stream, at the end of its input, or waiting for room to write a content byte -/
theorem run_spec : ∀ (fuel : Nat) (p : Ph) (ds inp : Bytes) (room c : Nat) (acc : Bytes),
    p ≠ .done → (p = .data → ds ≠ []) → inp <+: remainder p ds → inp.length < fuel →
    ∃ p' k out, run fuel p inp room c acc = some (p', c + k, acc ++ out) ∧ k ≤ inp.length ∧
      out.length ≤ room ∧ out <+: ds ∧
      (p' = .done → posOf p + k = 2 * ds.length + 1 ∧ out = ds) ∧
      (p' ≠ .done → posOf p + k = 2 * out.length + posOf p' ∧ (p' = .data → out.length < ds.length)) ∧
      (p' = .done ∨ k = inp.length ∨ (p' = .data ∧ out.length = room)) := by
  intro fuel
  induction fuel with
  | zero => intro p ds inp room c acc _ _ _ h; omega
  | succ fuel ih =>
    intro p ds inp room c acc hnd hdata hpre hfuel
    cases p with
    | done => exact absurd rfl hnd
    | marker =>
      cases inp with
      | nil =>
        exact ⟨.marker, 0, [], by simp [run], by simp, by simp, List.nil_prefix, by simp, by simp [posOf], by simp⟩
      | cons x rest =>
        cases ds with
        | nil =>
          -- the stream's remainder is the terminator alone
          simp only [remainder, enc, pairs, List.flatMap_nil, List.nil_append] at hpre
          have hx : x = 0 ∧ rest = [] := by
            obtain ⟨t, ht⟩ := hpre
            simp only [List.cons_append, List.cons.injEq] at ht
            obtain ⟨h1, h2⟩ := ht
            have : rest = [] := List.append_eq_nil_iff.mp h2 |>.1
            exact ⟨h1, this⟩
          obtain ⟨hx0, hr0⟩ := hx
          subst hx0; subst hr0
          exact ⟨.done, 1, [], by simp [run], by simp, by simp, List.nil_prefix, by simp [posOf], by simp, by simp⟩
        | cons y ys =>
          simp only [remainder, enc_cons] at hpre
          have hx : x = 1 ∧ rest <+: y :: enc ys := by
            obtain ⟨t, ht⟩ := hpre
            simp only [List.cons_append, List.cons.injEq] at ht
            exact ⟨ht.1, ⟨t, ht.2⟩⟩
          obtain ⟨hx1, hrest⟩ := hx
          subst hx1
          obtain ⟨p', k, out, h1, h2, h3, h4, h5, h6, h7⟩ := ih .data (y :: ys) rest room (c + 1) acc
            (by simp) (by simp) (by simpa [remainder] using hrest) (by simp only [List.length_cons] at hfuel; omega)
          refine ⟨p', k + 1, out, ?_, by simp only [List.length_cons]; omega, h3, h4, ?_, ?_, ?_⟩
          · have : run (fuel + 1) .marker (1 :: rest) room c acc = run fuel .data rest room (c + 1) acc := by
              simp [run]
            rw [this, h1]
            simp only [Nat.add_assoc, Nat.add_comm 1 k]
          · intro hd
            obtain ⟨a, b⟩ := h5 hd
            simp only [posOf] at a ⊢
            exact ⟨by omega, b⟩
          · intro hd
            obtain ⟨a, b⟩ := h6 hd
            simp only [posOf] at a ⊢
            exact ⟨by omega, b⟩
          · rcases h7 with h | h | h
            · exact Or.inl h
            · right; left; simp only [List.length_cons]; omega
            · exact Or.inr (Or.inr h)
    | data =>
      cases ds with
      | nil => exact absurd rfl (hdata rfl)
      | cons y ys =>
        cases inp with
        | nil =>
          exact ⟨.data, 0, [], by simp [run], by simp, by simp, List.nil_prefix, by simp, by simp [posOf], by simp⟩
        | cons x rest =>
          simp only [remainder] at hpre
          have hx : x = y ∧ rest <+: enc ys := by
            obtain ⟨t, ht⟩ := hpre
            simp only [List.cons_append, List.cons.injEq] at ht
            exact ⟨ht.1, ⟨t, ht.2⟩⟩
          obtain ⟨hxy, hrest⟩ := hx
          subst hxy
          by_cases hroom : room = 0
          · subst hroom
            exact ⟨.data, 0, [], by simp [run], by simp, by simp, List.nil_prefix, by simp, by simp [posOf], by simp⟩
          · obtain ⟨p', k, out, h1, h2, h3, h4, h5, h6, h7⟩ := ih .marker ys rest (room - 1) (c + 1) (acc ++ [x])
              (by simp) (by simp) (by simpa [remainder] using hrest) (by simp only [List.length_cons] at hfuel; omega)
            refine ⟨p', k + 1, x :: out, ?_, by simp only [List.length_cons]; omega,
              by simp only [List.length_cons]; omega, ?_, ?_, ?_, ?_⟩
            · have : run (fuel + 1) .data (x :: rest) room c acc = run fuel .marker rest (room - 1) (c + 1) (acc ++ [x]) := by
                simp [run, hroom]
              rw [this, h1]
              simp only [Nat.add_assoc, Nat.add_comm 1 k, List.append_assoc, List.singleton_append]
            · obtain ⟨t, ht⟩ := h4
              exact ⟨t, by simp [ht]⟩
            · intro hd
              obtain ⟨a, b⟩ := h5 hd
              simp only [posOf, List.length_cons] at a ⊢
              exact ⟨by omega, by rw [b]⟩
            · intro hd
              obtain ⟨a, b⟩ := h6 hd
              simp only [posOf, List.length_cons] at a ⊢
              exact ⟨by omega, fun h => by have := b h; omega⟩
            · rcases h7 with h | h | h
              · exact Or.inl h
              · right; left; simp only [List.length_cons]; omega
              · right; right; exact ⟨h.1, by simp only [List.length_cons]; omega⟩

theorem drop_enc_marker : ∀ (d : Bytes) (o : Nat), o ≤ d.length → (enc d).drop (2 * o) = enc (d.drop o) := by
  intro d
  induction d with
  | nil => intro o h; simp at h; subst h; rfl
  | cons x xs ih =>
    intro o h
    cases o with
    | zero => rfl
    | succ o =>
      have : 2 * (o + 1) = (2 * o) + 1 + 1 := by omega
      rw [this, enc_cons, List.drop_succ_cons, List.drop_succ_cons, List.drop_succ_cons]
      exact ih o (by simpa using h)

theorem drop_enc_data (d : Bytes) (o : Nat) (h : o < d.length) :
    (enc d).drop (2 * o + 1) = remainder .data (d.drop o) := by
  have h1 : (enc d).drop (2 * o + 1) = ((enc d).drop (2 * o)).drop 1 := by rw [List.drop_drop]
  rw [h1, drop_enc_marker d o (by omega)]
  cases hd : d.drop o with
  | nil =>
    have := congrArg List.length hd
    simp only [List.length_drop, List.length_nil] at this
    omega
  | cons y ys => simp [enc_cons, remainder]

def Inv (s : Ph) (z d : Bytes) (i o : Nat) : Prop :=
  z = enc d ∧ o ≤ d.length ∧ s ≠ .done ∧ i = 2 * o + posOf s ∧ (s = .data → o < d.length)

theorem inv_remainder {s : Ph} {z d : Bytes} {i o : Nat} (h : Inv s z d i o) :
    z.drop i = remainder s (d.drop o) ∧ (s = .data → d.drop o ≠ []) := by
  obtain ⟨hz, ho, hs, hi, hd⟩ := h
  subst hz; subst hi
  cases s with
  | done => exact absurd rfl hs
  | marker => exact ⟨by simpa [posOf, remainder] using drop_enc_marker d o ho, by simp⟩
  | data =>
    refine ⟨by simpa [posOf] using drop_enc_data d o (hd rfl), ?_⟩
    intro _ h0
    have := congrArg List.length h0
    simp only [List.length_drop, List.length_nil] at this
    have := hd rfl
    omega

/-- everything a call does on a valid stream, in terms of stream and content positions -/
theorem decompress_spec {s : Ph} {z d : Bytes} {i o : Nat} (inp : Bytes) (cap : Nat) (fin : Bool)
    (h : Inv s z d i o) (hpre : inp <+: z.drop i) :
    ∃ r, decompressor.decompress s inp cap fin = some r ∧ r.consumed ≤ inp.length ∧ r.produced.length ≤ cap ∧
      r.produced <+: d.drop o ∧
      (r.status = .bufError → r.consumed = 0 ∧ r.produced = []) ∧
      (r.status = .streamEnd → i + r.consumed = z.length ∧ o + r.produced.length = d.length) ∧
      (r.status ≠ .streamEnd → Inv r.state z d (i + r.consumed) (o + r.produced.length) ∧
        (r.consumed = inp.length ∨ (r.produced.length = cap ∧ o + r.produced.length < d.length))) := by
  obtain ⟨hrem, hdat⟩ := inv_remainder h
  obtain ⟨hz, ho, hs, hi, hd⟩ := h
  rw [hrem] at hpre
  obtain ⟨p', k, out, h1, h2, h3, h4, h5, h6, h7⟩ := run_spec (inp.length + 1) s (d.drop o) inp cap 0 [] hs hdat hpre (by omega)
  simp only [Nat.zero_add, List.nil_append] at h1
  have hlen : out.length ≤ d.length - o := by
    have := List.IsPrefix.length_le h4
    simpa using this
  refine ⟨{ state := p', consumed := k, produced := out,
            status := if p' = .done then .streamEnd else if k = 0 ∧ out = [] then .bufError else .ok }, ?_, h2, h3, h4, ?_, ?_, ?_⟩
  · simp only [decompressor, decompress, h1]
  · intro hb
    by_cases hp : p' = .done
    · simp [hp] at hb
    · simp only [hp, if_false] at hb
      by_cases hk : k = 0 ∧ out = []
      · exact hk
      · simp [hk] at hb
  · intro he
    have hp : p' = .done := by
      by_cases hp : p' = .done
      · exact hp
      · simp only [hp, if_false] at he
        split at he <;> cases he
    obtain ⟨a, b⟩ := h5 hp
    subst hz
    simp only [List.length_drop] at a
    dsimp only
    rw [enc_length, b, List.length_drop]
    omega
  · intro hne
    have hp : p' ≠ .done := by
      intro hp; simp [hp] at hne
    obtain ⟨a, b⟩ := h6 hp
    dsimp only
    refine ⟨⟨hz, by omega, hp, by omega, fun hd' => by have := b hd'; simp only [List.length_drop] at this; omega⟩, ?_⟩
    rcases h7 with h | h | h
    · exact absurd h hp
    · exact Or.inl h
    · right
      have := b h.1
      simp only [List.length_drop] at this
      exact ⟨h.2, by omega⟩

def decompressorOk : DecompressorOk decompressor IsToy where
  Inv := Inv
  stream_ne := by
    intro z d h
    rw [h]
    simp [enc]
  inv_init := by
    intro z d h
    exact ⟨h, Nat.zero_le _, by simp [decompressor], by simp [decompressor, posOf], by simp [decompressor]⟩
  step := by
    intro s z d i o inp cap fin r h hpre hr
    obtain ⟨r', h1, h2, h3, h4, _, h6, h7⟩ := decompress_spec inp cap fin h hpre
    rw [h1] at hr
    have := Option.some.inj hr
    subst this
    exact ⟨h2, h3, h4, fun hne => (h7 hne).1, h6⟩
  total := by
    intro s z d i o inp cap h hpre
    obtain ⟨r', h1, _⟩ := decompress_spec inp cap false h hpre
    exact ⟨r', h1⟩
  progress := by
    intro s z d i o inp cap r h hpre hne hcap hr hns
    obtain ⟨r', h1, _, _, _, _, _, h7⟩ := decompress_spec inp cap false h hpre
    rw [h1] at hr
    have := Option.some.inj hr
    subst this
    have hl : 0 < inp.length := by
      cases inp with
      | nil => exact absurd rfl hne
      | cons _ _ => simp
    rcases (h7 hns).2 with hk | ⟨hk, _⟩
    · left; omega
    · right
      intro h0
      rw [h0] at hk
      simp at hk
      omega
  end_detect := by
    intro s z d i o inp cap r h hpre hr hns hall hroom
    obtain ⟨r', h1, _, _, _, _, _, h7⟩ := decompress_spec inp cap false h hpre
    rw [h1] at hr
    have := Option.some.inj hr
    subst this
    obtain ⟨⟨hz, ho', hs', hi', hd'⟩, _⟩ := h7 hns
    rw [hz, enc_length]
    rw [hall] at hi'
    cases hst : r'.state with
    | done => exact absurd hst hs'
    | marker => rw [hst] at hi'; simp only [posOf] at hi'; omega
    | data => rw [hst] at hi'; have := hd' hst; simp only [posOf] at hi'; omega
  greedy_init := by
    intro z d inp cap r hz hpre hr hns
    have hinv : Inv .marker z d 0 0 := ⟨hz, Nat.zero_le _, by simp, by simp [posOf], by simp⟩
    obtain ⟨r', h1, _, _, _, _, _, h7⟩ := decompress_spec inp cap false hinv (by simpa using hpre)
    have hr' : decompressor.decompress .marker inp cap false = some r := hr
    rw [h1] at hr'
    have := Option.some.inj hr'
    subst this
    rcases (h7 hns).2 with hk | ⟨hk, _⟩
    · exact Or.inr hk
    · exact Or.inl hk
  finish_progress := by
    intro s z d i o cap r h hcap hr hns
    obtain ⟨r', h1, _, _, _, _, _, h7⟩ := decompress_spec (z.drop i) cap false h (List.prefix_refl _)
    rw [h1] at hr
    have := Option.some.inj hr
    subst this
    obtain ⟨hz, ho, hs, hi, hd⟩ := h
    rcases (h7 hns).2 with hk | ⟨hk, hlt⟩
    · left
      rw [hk, List.length_drop, hz, enc_length]
      cases s with
      | done => exact absurd rfl hs
      | marker => simp only [posOf] at hi; omega
      | data => have := hd rfl; simp only [posOf] at hi; omega
    · omega
  buf_error := by
    intro s inp cap r hr hb
    simp only [decompressor, decompress] at hr
    cases hrun : run (inp.length + 1) s inp cap 0 [] with
    | none => simp [hrun] at hr
    | some t =>
      obtain ⟨p', c, out⟩ := t
      simp only [hrun] at hr
      have hr' := (Option.some.inj hr).symm
      subst hr'
      simp only at hb ⊢
      by_cases hp : p' = .done
      · simp [hp] at hb
      · simp only [hp, if_false] at hb
        by_cases hk : c = 0 ∧ out = []
        · exact hk
        · simp [hk] at hb

end GixModel.C56.Toy
