import GixModel.Lemmas.C48Top
import GixModel.Lemmas.C48Resolve
/-
C48 (round 2) — from bytes to the outcome: when the delegate accepts every call a well-formed spec
means, running the TOKENIZER model with the delegate model in the loop (`resolve`, the function the
driver uses to predict `Repository::rev_parse`) on the printed spec is `resolveCalls` on its calls.
-/
namespace GixModel.C48R
open GixModel GixModel.C48
open GixModel.Spec.C48

/-- (`tokenize_print_calls`, restated here because lemma files cannot import `Props`) -/
theorem tokenize_print_calls (dateOk : Bytes → Bool) (ast : Ast) (hwf : ast.Wf dateOk) :
    tokenize allYes dateOk ast.print = ⟨ast.calls, .ok⟩ := by
  cases ast with
  | single r => exact single_print dateOk r hwf
  | exclude r => exact exclude_print dateOk r hwf
  | range a b =>
    obtain ⟨ha, hopen, hb, hdot⟩ := hwf
    have := range_print dateOk .rangeBetween a b (46 :: 46 :: optRev b) (optRev b) rfl
      (tryRange_two _ hdot) ha hopen hb
    simpa [Ast.print, Ast.calls] using this
  | merge a b =>
    obtain ⟨ha, hopen, hb⟩ := hwf
    have := range_print dateOk .reachableToMergeBase a b (46 :: 46 :: 46 :: optRev b) (46 :: optRev b) rfl
      (tryRange_three _) ha hopen hb
    simpa [Ast.print, Ast.calls] using this
  | parents r =>
    obtain ⟨hr, hopen⟩ := hwf
    obtain ⟨a, ns, rfl⟩ := open_rev_cases hopen
    exact parents_print dateOk a ns hr.1 hr.2
  | excludeParents r =>
    obtain ⟨hr, hopen⟩ := hwf
    obtain ⟨a, ns, rfl⟩ := open_rev_cases hopen
    exact exclParents_print dateOk a ns hr.1 hr.2
  | parentRange r n =>
    obtain ⟨hr, hopen, hrem, h1, h2⟩ := hwf
    obtain ⟨a, ns, rfl⟩ := open_rev_cases hopen
    exact parentRange_print dateOk a ns hr.1 hr.2 hrem n h1 h2

theorem policy_allYes (l : List Bool) (h : ∀ b ∈ l, b = true) : policyOf l = allYes := by
  funext i c
  unfold policyOf allYes
  cases hi : l[i]? with
  | none => simp [List.getD, hi]
  | some b =>
    have hm : b ∈ l := List.mem_of_getElem? hi
    simp [List.getD, hi, h b hm]

/-- an accepted run: replaying gives its final state, and every call was accepted where it was made -/
theorem run_replay (R : Repo) (fuel : Nat) : ∀ (calls : List Call) (s s' : DState),
    runCalls R fuel s calls = some s' →
    calls.foldl (fun s c => (step R fuel s c).1) s = s' ∧
    ∀ n c, calls[n]? = some c →
      (step R fuel ((calls.take n).foldl (fun s c => (step R fuel s c).1) s) c).2 = true := by
  intro calls
  induction calls with
  | nil =>
    intro s s' h
    simp only [runCalls, Option.some.injEq] at h
    exact ⟨h, fun n c hc => by simp at hc⟩
  | cons c cs ih =>
    intro s s' h
    simp only [runCalls] at h
    by_cases hacc : (step R fuel s c).2 = true
    · simp only [hacc, if_true] at h
      obtain ⟨h1, h2⟩ := ih _ _ h
      refine ⟨by simpa [List.foldl] using h1, ?_⟩
      intro n c' hc
      cases n with
      | zero =>
        simp only [List.getElem?_cons_zero, Option.some.injEq] at hc
        subst hc
        simpa using hacc
      | succ n =>
        simp only [List.getElem?_cons_succ] at hc
        simpa [List.take, List.foldl] using h2 n c' hc
    · simp [hacc] at h

theorem answers_all_true (R : Repo) (fuel : Nat) (ast : Ast) (hwf : ast.Wf (fun _ => true))
    (s : DState) (hrun : runCalls R fuel {} ast.calls = some s) :
    ∀ n, ∀ b ∈ answers R fuel ast.print n, b = true := by
  intro n
  induction n with
  | zero => intro b hb; simp [answers] at hb
  | succ n ih =>
    intro b hb
    simp only [answers] at hb
    rw [policy_allYes _ ih, tokenize_print_calls _ ast hwf] at hb
    simp only at hb
    cases hc : ast.calls[n]? with
    | none => rw [hc] at hb; exact ih b hb
    | some c =>
      rw [hc] at hb
      simp only [List.mem_append, List.mem_singleton] at hb
      rcases hb with hb | hb
      · exact ih b hb
      · rw [hb]
        exact (run_replay R fuel ast.calls {} s hrun).2 n c hc

/-- bytes → outcome: if the delegate accepts every call of a well-formed spec, parsing its printed
form with the delegate in the loop is the interpretation of its calls -/
theorem resolve_print (R : Repo) (fuel : Nat) (ast : Ast) (hwf : ast.Wf (fun _ => true))
    (s : DState) (hrun : runCalls R fuel {} ast.calls = some s) :
    resolve R fuel ast.print = resolveCalls R fuel ast.calls := by
  simp only [resolve]
  rw [policy_allYes _ (answers_all_true R fuel ast hwf s hrun _), tokenize_print_calls _ ast hwf]
  have hrep : replay R fuel ast.calls = s := (run_replay R fuel ast.calls {} s hrun).1
  simp only [hrep, resolveCalls, hrun]
  unfold finish
  by_cases hb : s.bug = true <;> simp [hb]

end GixModel.C48R
