import GixModel.Model.C44
/-
C44 helper lemmas, part r: the `Recorder` fed with the delegate calls of the walk (`Model/C44r.lean`)
records exactly the changes of `Model/C44.lean`, paths included, and its `path_deque` holds the
paths of the queued sub-trees.
-/
namespace GixModel.C44
open GixModel GixModel.Tree
open GixModel.C04 (Assoc aget)

theorem runEvs_append : ∀ (a b : List Ev) (rs : RS),
    runEvs rs (a ++ b) = (runEvs rs a).bind (fun rs' => runEvs rs' b)
  | [], _, _ => rfl
  | e :: a, b, rs => by
    simp only [List.cons_append, runEvs]
    cases recStep rs e with
    | none => rfl
    | some rs' => exact runEvs_append a b rs'

/-- the recorder is where the walk is: same records, the deque holds the paths of the items still
to come (`pending`: the rest of the current layer) followed by those queued since -/
structure Sync (rs : RS) (pending : List Path) (acc : Acc) : Prop where
  recs : rs.recs = acc.recs
  deque : rs.deque = pending ++ acc.queue.map (·.path)

def view (r : RS) : Path × List Change × List Path := (r.path, r.recs, r.deque)

theorem sync_of_view {o : Option RS} {dir' : Path} {acc' : Acc} {pending : List Path}
    (h : o.map view = some (dir', acc'.recs, pending ++ acc'.queue.map (·.path))) :
    ∃ rs', o = some rs' ∧ rs'.path = dir' ∧ Sync rs' pending acc' := by
  cases o with
  | none => cases h
  | some rs' =>
    simp only [Option.map_some, view, Option.some.injEq, Prod.mk.injEq] at h
    exact ⟨rs', rfl, h.1, ⟨h.2.1, h.2.2⟩⟩

theorem deleteEv_run (dir : Path) (rel : Rel) (a : Entry) (acc : Acc) (rs : RS) (pending : List Path)
    (hp : rs.path = dir) (hs : Sync rs pending acc) :
    ∃ rs', runEvs rs (deleteEv rel a acc) = some rs' ∧ rs'.path = dir ++ [a.name] ∧
      Sync rs' pending (deleteEntry dir rel a acc) := by
  obtain ⟨path, deque, recs⟩ := rs
  obtain ⟨h1, h2⟩ := hs
  simp only at hp h1 h2
  subst hp h1 h2
  apply sync_of_view
  by_cases hd : a.isTree = true <;>
    simp [deleteEv, deleteEntry, hd, runEvs, recStep, RawChange.withPath, view]

theorem addEv_run (dir : Path) (rel : Rel) (a : Entry) (acc : Acc) (rs : RS) (pending : List Path)
    (hp : rs.path = dir) (hs : Sync rs pending acc) :
    ∃ rs', runEvs rs (addEv rel a acc) = some rs' ∧ rs'.path = dir ++ [a.name] ∧
      Sync rs' pending (addEntry dir rel a acc) := by
  obtain ⟨path, deque, recs⟩ := rs
  obtain ⟨h1, h2⟩ := hs
  simp only at hp h1 h2
  subst hp h1 h2
  apply sync_of_view
  by_cases hd : a.isTree = true <;>
    simp [addEv, addEntry, hd, runEvs, recStep, RawChange.withPath, view]

theorem equalEv_run (dir : Path) (rel : Rel) (a b : Entry) (acc : Acc) (rs : RS) (pending : List Path)
    (hp : rs.path = dir) (hs : Sync rs pending acc) :
    ∃ rs', runEvs rs (equalEv rel a b acc) = some rs' ∧ rs'.path = dir ++ [a.name] ∧
      Sync rs' pending (handleEqual dir rel a b acc) := by
  obtain ⟨path, deque, recs⟩ := rs
  obtain ⟨h1, h2⟩ := hs
  simp only at hp h1 h2
  subst hp h1 h2
  apply sync_of_view
  cases ha : a.isTree <;> cases hb : b.isTree
  · by_cases hc : (a.oid != b.oid || a.mode != b.mode) = true <;>
      simp only [equalEv, handleEqual, ha, hb, hc, if_true, if_false] <;>
      simp [runEvs, recStep, RawChange.withPath, view]
  · simp only [equalEv, handleEqual, ha, hb]
    simp [runEvs, recStep, RawChange.withPath, view]
  · simp only [equalEv, handleEqual, ha, hb]
    simp [runEvs, recStep, RawChange.withPath, view]
  · by_cases hc : (a.oid != b.oid) = true <;>
      simp only [equalEv, handleEqual, ha, hb, hc, if_true, if_false] <;>
      simp [runEvs, recStep, RawChange.withPath, view]

/-- where the recorder's path stands between two handler calls: in the directory before the first
one, one component deeper (the previous entry's name) afterwards -/
def PathAt (pp : Bool) (dir : Path) (p : Path) : Prop :=
  if pp then ∃ x, p = dir ++ [x] else p = dir

theorem prePop_run (pp : Bool) (dir : Path) (rs : RS) (hp : PathAt pp dir rs.path) :
    runEvs rs (prePop pp) = some { rs with path := dir } := by
  obtain ⟨path, deque, recs⟩ := rs
  cases pp
  · simp only [PathAt, Bool.false_eq_true, if_false] at hp
    subst hp
    rfl
  · simp only [PathAt, if_true] at hp
    obtain ⟨x, hx⟩ := hp
    subst hx
    simp [prePop, runEvs, recStep]

theorem runEvs_append_some {rs rs' : RS} {a : List Ev} (h : runEvs rs a = some rs') (b : List Ev) :
    runEvs rs (a ++ b) = runEvs rs' b := by
  rw [runEvs_append, h]; rfl

/-- one handler call with the pop in front of it, then the rest of the directory -/
theorem step_run {dir : Path} {pending : List Path} {pp : Bool} {rs : RS} {acc acc' : Acc}
    {evs rest : List Ev} {name : Bytes} (hp : PathAt pp dir rs.path) (hs : Sync rs pending acc)
    (hev : ∀ rs1 : RS, rs1.path = dir → Sync rs1 pending acc →
      ∃ rs2, runEvs rs1 evs = some rs2 ∧ rs2.path = dir ++ [name] ∧ Sync rs2 pending acc')
    {acc'' : Acc}
    (hrest : ∀ rs2 : RS, PathAt true dir rs2.path → Sync rs2 pending acc' →
      ∃ rs3, runEvs rs2 rest = some rs3 ∧ rs3.path = dir ∧ Sync rs3 pending acc'') :
    ∃ rs3, runEvs rs (prePop pp ++ evs ++ rest) = some rs3 ∧ rs3.path = dir ∧ Sync rs3 pending acc'' := by
  have h1 := prePop_run pp dir rs hp
  obtain ⟨rs2, h2, hp2, hs2⟩ := hev { rs with path := dir } rfl ⟨hs.recs, hs.deque⟩
  obtain ⟨rs3, h3, hp3, hs3⟩ := hrest rs2 (by simp only [PathAt, if_true]; exact ⟨_, hp2⟩) hs2
  refine ⟨rs3, ?_, hp3, hs3⟩
  rw [List.append_assoc, runEvs_append_some h1, runEvs_append_some h2, h3]

theorem mergeLevelEv_run (dir : Path) (rel : Rel) (pending : List Path) :
    ∀ (fuel : Nat) (l r : List Entry) (acc : Acc) (pp : Bool) (rs : RS),
      PathAt pp dir rs.path → Sync rs pending acc → l.length + r.length < fuel →
      ∃ rs', runEvs rs (mergeLevelEv dir rel fuel l r acc pp) = some rs' ∧ rs'.path = dir ∧
        Sync rs' pending (mergeLevel dir rel fuel l r acc)
  | 0, _, _, _, _, _, _, _, hf => absurd hf (Nat.not_lt_zero _)
  | fuel + 1, [], [], acc, pp, rs, hp, hs, _ => by
    refine ⟨{ rs with path := dir }, ?_, rfl, ⟨hs.recs, hs.deque⟩⟩
    simp only [mergeLevelEv]
    exact prePop_run pp dir rs hp
  | fuel + 1, a :: l, [], acc, pp, rs, hp, hs, hf => by
    simp only [mergeLevelEv, mergeLevel]
    exact step_run hp hs (fun rs1 h1 h2 => deleteEv_run dir rel a acc rs1 pending h1 h2)
      (fun rs2 h1 h2 => mergeLevelEv_run dir rel pending fuel l [] _ true rs2 h1 h2
        (by simp only [List.length_cons, List.length_nil] at hf ⊢; omega))
  | fuel + 1, [], b :: r, acc, pp, rs, hp, hs, hf => by
    simp only [mergeLevelEv, mergeLevel]
    exact step_run hp hs (fun rs1 h1 h2 => addEv_run dir rel b acc rs1 pending h1 h2)
      (fun rs2 h1 h2 => mergeLevelEv_run dir rel pending fuel [] r _ true rs2 h1 h2
        (by simp only [List.length_cons, List.length_nil] at hf ⊢; omega))
  | fuel + 1, a :: l, b :: r, acc, pp, rs, hp, hs, hf => by
    simp only [mergeLevelEv, mergeLevel]
    cases hc : entryCmp a b with
    | eq =>
      simp only
      exact step_run hp hs (fun rs1 h1 h2 => equalEv_run dir rel a b acc rs1 pending h1 h2)
        (fun rs2 h1 h2 => mergeLevelEv_run dir rel pending fuel l r _ true rs2 h1 h2
          (by simp only [List.length_cons] at hf ⊢; omega))
    | lt =>
      simp only
      exact step_run hp hs (fun rs1 h1 h2 => deleteEv_run dir rel a acc rs1 pending h1 h2)
        (fun rs2 h1 h2 => mergeLevelEv_run dir rel pending fuel l (b :: r) _ true rs2 h1 h2
          (by simp only [List.length_cons] at hf ⊢; omega))
    | gt =>
      simp only
      exact step_run hp hs (fun rs1 h1 h2 => addEv_run dir rel b acc rs1 pending h1 h2)
        (fun rs2 h1 h2 => mergeLevelEv_run dir rel pending fuel (a :: l) r _ true rs2 h1 h2
          (by simp only [List.length_cons] at hf ⊢; omega))

theorem runLayerEv_run (store : Assoc Bytes (List Entry)) :
    ∀ (q : List QItem) (acc : Acc) (rs : RS), Sync rs (q.map (·.path)) acc →
      ∀ acc', runLayer store q acc = some acc' →
      ∃ rs', runEvs rs (runLayerEv store q acc) = some rs' ∧ Sync rs' [] acc'
  | [], acc, rs, hs, acc', h => by
    simp only [runLayer, Option.some.injEq] at h
    subst h
    exact ⟨rs, rfl, hs⟩
  | it :: rest, acc, rs, hs, acc', h => by
    simp only [runLayer, runLayerEv] at h ⊢
    cases hl : loadItem store it with
    | none => rw [hl] at h; cases h
    | some tt =>
      obtain ⟨tl, tr⟩ := tt
      rw [hl] at h
      simp only at h ⊢
      have hpop : recStep rs .popFront =
          some { rs with path := it.path, deque := rest.map (·.path) ++ acc.queue.map (·.path) } := by
        have := hs.deque
        simp only [List.map_cons, List.cons_append] at this
        simp only [recStep, this]
      obtain ⟨rs2, h2, _, hs2⟩ := mergeLevelEv_run it.path it.rel (rest.map (·.path))
        (tl.length + tr.length + 1) tl tr acc false
        { rs with path := it.path, deque := rest.map (·.path) ++ acc.queue.map (·.path) }
        (by simp [PathAt]) ⟨hs.recs, rfl⟩ (Nat.lt_succ_self _)
      obtain ⟨rs3, h3, hs3⟩ := runLayerEv_run store rest _ rs2 hs2 acc' h
      refine ⟨rs3, ?_, hs3⟩
      rw [List.append_assoc, List.singleton_append, runEvs, hpop]
      simp only
      rw [runEvs_append_some h2, h3]

theorem runLayersEv_run (store : Assoc Bytes (List Entry)) :
    ∀ (depth : Nat) (q : List QItem) (recs : List Change) (cid : Nat) (rs : RS),
      rs.recs = recs → rs.deque = q.map (·.path) →
      ∀ out, runLayers store depth q recs cid = .ok out →
      ∃ rs', runEvs rs (runLayersEv store depth q recs cid) = some rs' ∧ rs'.recs = out ∧ rs'.deque = []
  | 0, q, recs, cid, rs, hr, hd, out, h => by
    simp only [runLayers] at h
    by_cases hq : q.isEmpty = true
    · rw [if_pos hq] at h
      cases h
      have : q = [] := List.isEmpty_iff.1 hq
      subst this
      exact ⟨rs, rfl, hr, hd⟩
    · rw [if_neg hq] at h; cases h
  | depth + 1, q, recs, cid, rs, hr, hd, out, h => by
    simp only [runLayers, runLayersEv] at h ⊢
    by_cases hq : q.isEmpty = true
    · rw [if_pos hq] at h ⊢
      cases h
      have : q = [] := List.isEmpty_iff.1 hq
      subst this
      exact ⟨rs, rfl, hr, hd⟩
    · rw [if_neg hq] at h ⊢
      cases hl : runLayer store q ⟨recs, [], cid⟩ with
      | none => rw [hl] at h; cases h
      | some acc =>
        rw [hl] at h
        simp only at h ⊢
        obtain ⟨rs2, h2, hs2⟩ := runLayerEv_run store q ⟨recs, [], cid⟩ rs
          ⟨hr, by simp [hd]⟩ acc hl
        obtain ⟨rs3, h3, hr3, hd3⟩ := runLayersEv_run store depth acc.queue acc.recs acc.cid rs2
          hs2.recs (by simpa using hs2.deque) out h
        exact ⟨rs3, by rw [runEvs_append_some h2, h3], hr3, hd3⟩

/-- The `Recorder`, fed with the delegate calls of the whole walk, records exactly what the model
of the walk hands out — every change with the path `dir ++ [name]` of its entry — never hits the
`expect` of `pop_front_tracked_path_and_set_current`, and ends with an empty `path_deque`. -/
theorem diffEv_run (store : Assoc Bytes (List Entry)) (depth : Nat) (l r : List Entry)
    (out : List Change) (h : diff store depth l r = .ok out) :
    ∃ rs, runEvs ⟨[], [], []⟩ (diffEv store depth l r) = some rs ∧ rs.recs = out ∧ rs.deque = [] := by
  simp only [diff] at h
  obtain ⟨rs1, h1, _, hs1⟩ := mergeLevelEv_run [] .none [] (l.length + r.length + 1) l r ⟨[], [], 0⟩
    false ⟨[], [], []⟩ (by simp [PathAt]) ⟨rfl, rfl⟩ (Nat.lt_succ_self _)
  obtain ⟨rs2, h2, hr2, hd2⟩ := runLayersEv_run store depth _ _ _ rs1 hs1.recs
    (by simpa using hs1.deque) out h
  refine ⟨rs2, ?_, hr2, hd2⟩
  simp only [diffEv]
  rw [runEvs_append_some h1, h2]

end GixModel.C44
