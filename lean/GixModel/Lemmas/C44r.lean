import GixModel.Model.C44
import GixModel.Lemmas.Tree
/-
C44 helper lemmas, part r: the `Recorder` fed with the delegate calls of the walk (`Model/C44r.lean`)
records exactly the changes of `Model/C44.lean`, paths included, and its `path_deque` holds the
paths of the queued sub-trees.
-/
namespace GixModel.C44
open GixModel GixModel.Tree
open GixModel.C04 (Assoc aget)

theorem runEvs_append : ∀ (a b : List Ev) (rs : RS),
    runEvs rs (a ++ b) = (runEvs rs a).bind (fun rs' => runEvs rs' b)
  | [], _, _ => rfl
  | e :: a, b, rs => by
    simp only [List.cons_append, runEvs]
    cases recStep rs e with
    | none => rfl
    | some rs' => exact runEvs_append a b rs'

/-- the recorder is where the walk is: same records, the deque holds the paths of the items still
to come (`pending`: the rest of the current layer) followed by those queued since -/
structure Sync (rs : RS) (pending : List Path) (acc : Acc) : Prop where
  recs : rs.recs = acc.recs
  deque : rs.deque = pending ++ acc.queue.map (·.path)

def view (r : RS) : Path × List Change × List Path := (r.path, r.recs, r.deque)

theorem sync_of_view {o : Option RS} {dir' : Path} {acc' : Acc} {pending : List Path}
    (h : o.map view = some (dir', acc'.recs, pending ++ acc'.queue.map (·.path))) :
    ∃ rs', o = some rs' ∧ rs'.path = dir' ∧ Sync rs' pending acc' := by
  cases o with
  | none => cases h
  | some rs' =>
    simp only [Option.map_some, view, Option.some.injEq, Prod.mk.injEq] at h
    exact ⟨rs', rfl, h.1, ⟨h.2.1, h.2.2⟩⟩

theorem deleteEv_run (dir : Path) (rel : Rel) (a : Entry) (acc : Acc) (rs : RS) (pending : List Path)
    (hp : rs.path = dir) (hs : Sync rs pending acc) :
    ∃ rs', runEvs rs (deleteEv rel a acc) = some rs' ∧ rs'.path = dir ++ [a.name] ∧
      Sync rs' pending (deleteEntry dir rel a acc) := by
  obtain ⟨path, deque, recs⟩ := rs
  obtain ⟨h1, h2⟩ := hs
  simp only at hp h1 h2
  subst hp h1 h2
  apply sync_of_view
  by_cases hd : a.isTree = true <;>
    simp [deleteEv, deleteEntry, hd, runEvs, recStep, RawChange.withPath, view]

theorem addEv_run (dir : Path) (rel : Rel) (a : Entry) (acc : Acc) (rs : RS) (pending : List Path)
    (hp : rs.path = dir) (hs : Sync rs pending acc) :
    ∃ rs', runEvs rs (addEv rel a acc) = some rs' ∧ rs'.path = dir ++ [a.name] ∧
      Sync rs' pending (addEntry dir rel a acc) := by
  obtain ⟨path, deque, recs⟩ := rs
  obtain ⟨h1, h2⟩ := hs
  simp only at hp h1 h2
  subst hp h1 h2
  apply sync_of_view
  by_cases hd : a.isTree = true <;>
    simp [addEv, addEntry, hd, runEvs, recStep, RawChange.withPath, view]

theorem equalEv_run (dir : Path) (rel : Rel) (a b : Entry) (acc : Acc) (rs : RS) (pending : List Path)
    (hp : rs.path = dir) (hs : Sync rs pending acc) :
    ∃ rs', runEvs rs (equalEv rel a b acc) = some rs' ∧ rs'.path = dir ++ [a.name] ∧
      Sync rs' pending (handleEqual dir rel a b acc) := by
  obtain ⟨path, deque, recs⟩ := rs
  obtain ⟨h1, h2⟩ := hs
  simp only at hp h1 h2
  subst hp h1 h2
  apply sync_of_view
  cases ha : a.isTree <;> cases hb : b.isTree
  · by_cases hc : (a.oid != b.oid || a.mode != b.mode) = true <;>
      simp only [equalEv, handleEqual, ha, hb, hc, if_true, if_false] <;>
      simp [runEvs, recStep, RawChange.withPath, view]
  · simp only [equalEv, handleEqual, ha, hb]
    simp [runEvs, recStep, RawChange.withPath, view]
  · simp only [equalEv, handleEqual, ha, hb]
    simp [runEvs, recStep, RawChange.withPath, view]
  · by_cases hc : (a.oid != b.oid) = true <;>
      simp only [equalEv, handleEqual, ha, hb, hc, if_true, if_false] <;>
      simp [runEvs, recStep, RawChange.withPath, view]

/-- where the recorder's path stands between two handler calls: in the directory before the first
one, one component deeper (the previous entry's name) afterwards -/
def PathAt (pp : Bool) (dir : Path) (p : Path) : Prop :=
  if pp then ∃ x, p = dir ++ [x] else p = dir

theorem prePop_run (pp : Bool) (dir : Path) (rs : RS) (hp : PathAt pp dir rs.path) :
    runEvs rs (prePop pp) = some { rs with path := dir } := by
  obtain ⟨path, deque, recs⟩ := rs
  cases pp
  · simp only [PathAt, Bool.false_eq_true, if_false] at hp
    subst hp
    rfl
  · simp only [PathAt, if_true] at hp
    obtain ⟨x, hx⟩ := hp
    subst hx
    simp [prePop, runEvs, recStep]

theorem runEvs_append_some {rs rs' : RS} {a : List Ev} (h : runEvs rs a = some rs') (b : List Ev) :
    runEvs rs (a ++ b) = runEvs rs' b := by
  rw [runEvs_append, h]; rfl

/-- one handler call with the pop in front of it, then the rest of the directory -/
theorem step_run {dir : Path} {pending : List Path} {pp : Bool} {rs : RS} {acc acc' : Acc}
    {evs rest : List Ev} {name : Bytes} (hp : PathAt pp dir rs.path) (hs : Sync rs pending acc)
    (hev : ∀ rs1 : RS, rs1.path = dir → Sync rs1 pending acc →
      ∃ rs2, runEvs rs1 evs = some rs2 ∧ rs2.path = dir ++ [name] ∧ Sync rs2 pending acc')
    {acc'' : Acc}
    (hrest : ∀ rs2 : RS, PathAt true dir rs2.path → Sync rs2 pending acc' →
      ∃ rs3, runEvs rs2 rest = some rs3 ∧ rs3.path = dir ∧ Sync rs3 pending acc'') :
    ∃ rs3, runEvs rs (prePop pp ++ evs ++ rest) = some rs3 ∧ rs3.path = dir ∧ Sync rs3 pending acc'' := by
  have h1 := prePop_run pp dir rs hp
  obtain ⟨rs2, h2, hp2, hs2⟩ := hev { rs with path := dir } rfl ⟨hs.recs, hs.deque⟩
  obtain ⟨rs3, h3, hp3, hs3⟩ := hrest rs2 (by simp only [PathAt, if_true]; exact ⟨_, hp2⟩) hs2
  refine ⟨rs3, ?_, hp3, hs3⟩
  rw [List.append_assoc, runEvs_append_some h1, runEvs_append_some h2, h3]

theorem mergeLevelEv_run (dir : Path) (rel : Rel) (pending : List Path) :
    ∀ (fuel : Nat) (l r : List Entry) (acc : Acc) (pp : Bool) (rs : RS),
      PathAt pp dir rs.path → Sync rs pending acc → l.length + r.length < fuel →
      ∃ rs', runEvs rs (mergeLevelEv dir rel fuel l r acc pp) = some rs' ∧ rs'.path = dir ∧
        Sync rs' pending (mergeLevel dir rel fuel l r acc)
  | 0, _, _, _, _, _, _, _, hf => absurd hf (Nat.not_lt_zero _)
  | fuel + 1, [], [], acc, pp, rs, hp, hs, _ => by
    refine ⟨{ rs with path := dir }, ?_, rfl, ⟨hs.recs, hs.deque⟩⟩
    simp only [mergeLevelEv]
    exact prePop_run pp dir rs hp
  | fuel + 1, a :: l, [], acc, pp, rs, hp, hs, hf => by
    simp only [mergeLevelEv, mergeLevel]
    exact step_run hp hs (fun rs1 h1 h2 => deleteEv_run dir rel a acc rs1 pending h1 h2)
      (fun rs2 h1 h2 => mergeLevelEv_run dir rel pending fuel l [] _ true rs2 h1 h2
        (by simp only [List.length_cons, List.length_nil] at hf ⊢; omega))
  | fuel + 1, [], b :: r, acc, pp, rs, hp, hs, hf => by
    simp only [mergeLevelEv, mergeLevel]
    exact step_run hp hs (fun rs1 h1 h2 => addEv_run dir rel b acc rs1 pending h1 h2)
      (fun rs2 h1 h2 => mergeLevelEv_run dir rel pending fuel [] r _ true rs2 h1 h2
        (by simp only [List.length_cons, List.length_nil] at hf ⊢; omega))
  | fuel + 1, a :: l, b :: r, acc, pp, rs, hp, hs, hf => by
    simp only [mergeLevelEv, mergeLevel]
    cases hc : entryCmp a b with
    | eq =>
      simp only
      exact step_run hp hs (fun rs1 h1 h2 => equalEv_run dir rel a b acc rs1 pending h1 h2)
        (fun rs2 h1 h2 => mergeLevelEv_run dir rel pending fuel l r _ true rs2 h1 h2
          (by simp only [List.length_cons] at hf ⊢; omega))
    | lt =>
      simp only
      exact step_run hp hs (fun rs1 h1 h2 => deleteEv_run dir rel a acc rs1 pending h1 h2)
        (fun rs2 h1 h2 => mergeLevelEv_run dir rel pending fuel l (b :: r) _ true rs2 h1 h2
          (by simp only [List.length_cons] at hf ⊢; omega))
    | gt =>
      simp only
      exact step_run hp hs (fun rs1 h1 h2 => addEv_run dir rel b acc rs1 pending h1 h2)
        (fun rs2 h1 h2 => mergeLevelEv_run dir rel pending fuel (a :: l) r _ true rs2 h1 h2
          (by simp only [List.length_cons] at hf ⊢; omega))

theorem runLayerEv_run (store : Assoc Bytes (List Entry)) :
    ∀ (q : List QItem) (acc : Acc) (rs : RS), Sync rs (q.map (·.path)) acc →
      ∀ acc', runLayer store q acc = some acc' →
      ∃ rs', runEvs rs (runLayerEv store q acc) = some rs' ∧ Sync rs' [] acc'
  | [], acc, rs, hs, acc', h => by
    simp only [runLayer, Option.some.injEq] at h
    subst h
    exact ⟨rs, rfl, hs⟩
  | it :: rest, acc, rs, hs, acc', h => by
    simp only [runLayer, runLayerEv] at h ⊢
    cases hl : loadItem store it with
    | none => rw [hl] at h; cases h
    | some tt =>
      obtain ⟨tl, tr⟩ := tt
      rw [hl] at h
      simp only at h ⊢
      have hpop : recStep rs .popFront =
          some { rs with path := it.path, deque := rest.map (·.path) ++ acc.queue.map (·.path) } := by
        have := hs.deque
        simp only [List.map_cons, List.cons_append] at this
        simp only [recStep, this]
      obtain ⟨rs2, h2, _, hs2⟩ := mergeLevelEv_run it.path it.rel (rest.map (·.path))
        (tl.length + tr.length + 1) tl tr acc false
        { rs with path := it.path, deque := rest.map (·.path) ++ acc.queue.map (·.path) }
        (by simp [PathAt]) ⟨hs.recs, rfl⟩ (Nat.lt_succ_self _)
      obtain ⟨rs3, h3, hs3⟩ := runLayerEv_run store rest _ rs2 hs2 acc' h
      refine ⟨rs3, ?_, hs3⟩
      rw [List.append_assoc, List.singleton_append, runEvs, hpop]
      simp only
      rw [runEvs_append_some h2, h3]

theorem runLayersEv_run (store : Assoc Bytes (List Entry)) :
    ∀ (depth : Nat) (q : List QItem) (recs : List Change) (cid : Nat) (rs : RS),
      rs.recs = recs → rs.deque = q.map (·.path) →
      ∀ out, runLayers store depth q recs cid = .ok out →
      ∃ rs', runEvs rs (runLayersEv store depth q recs cid) = some rs' ∧ rs'.recs = out ∧ rs'.deque = []
  | 0, q, recs, cid, rs, hr, hd, out, h => by
    simp only [runLayers] at h
    by_cases hq : q.isEmpty = true
    · rw [if_pos hq] at h
      cases h
      have : q = [] := List.isEmpty_iff.1 hq
      subst this
      exact ⟨rs, rfl, hr, hd⟩
    · rw [if_neg hq] at h; cases h
  | depth + 1, q, recs, cid, rs, hr, hd, out, h => by
    simp only [runLayers, runLayersEv] at h ⊢
    by_cases hq : q.isEmpty = true
    · rw [if_pos hq] at h ⊢
      cases h
      have : q = [] := List.isEmpty_iff.1 hq
      subst this
      exact ⟨rs, rfl, hr, hd⟩
    · rw [if_neg hq] at h ⊢
      cases hl : runLayer store q ⟨recs, [], cid⟩ with
      | none => rw [hl] at h; cases h
      | some acc =>
        rw [hl] at h
        simp only at h ⊢
        obtain ⟨rs2, h2, hs2⟩ := runLayerEv_run store q ⟨recs, [], cid⟩ rs
          ⟨hr, by simp [hd]⟩ acc hl
        obtain ⟨rs3, h3, hr3, hd3⟩ := runLayersEv_run store depth acc.queue acc.recs acc.cid rs2
          hs2.recs (by simpa using hs2.deque) out h
        exact ⟨rs3, by rw [runEvs_append_some h2, h3], hr3, hd3⟩

/-- The `Recorder`, fed with the delegate calls of the whole walk, records exactly what the model
of the walk hands out — every change with the path `dir ++ [name]` of its entry — never hits the
`expect` of `pop_front_tracked_path_and_set_current`, and ends with an empty `path_deque`. -/
theorem diffEv_run (store : Assoc Bytes (List Entry)) (depth : Nat) (l r : List Entry)
    (out : List Change) (h : diff store depth l r = .ok out) :
    ∃ rs, runEvs ⟨[], [], []⟩ (diffEv store depth l r) = some rs ∧ rs.recs = out ∧ rs.deque = [] := by
  simp only [diff] at h
  obtain ⟨rs1, h1, _, hs1⟩ := mergeLevelEv_run [] .none [] (l.length + r.length + 1) l r ⟨[], [], 0⟩
    false ⟨[], [], []⟩ (by simp [PathAt]) ⟨rfl, rfl⟩ (Nat.lt_succ_self _)
  obtain ⟨rs2, h2, hr2, hd2⟩ := runLayersEv_run store depth _ _ _ rs1 hs1.recs
    (by simpa using hs1.deque) out h
  refine ⟨rs2, ?_, hr2, hd2⟩
  simp only [diffEv]
  rw [runEvs_append_some h1, h2]

/-! ### the byte-string `Recorder` simulates the component-list one (slash-free names) -/

theorem joinPath_snoc (p : Path) (n : Bytes) : C04.joinPath (p ++ [n]) = C04.pushPath (C04.joinPath p) n := by
  simp [C04.joinPath, List.foldl_append]

theorem dropWhile_ne_slash (n : Bytes) (hn : SlashFree n) (rest : Bytes) :
    (n.reverse ++ 47 :: rest).dropWhile (fun x => x != 47) = 47 :: rest := by
  have : ∀ (l : Bytes), (∀ b ∈ l, b ≠ 47) → (l ++ 47 :: rest).dropWhile (fun x => x != 47) = 47 :: rest := by
    intro l
    induction l with
    | nil => intro _; simp [List.dropWhile]
    | cons a as ih =>
      intro h
      have ha : (a != 47) = true := by simpa using h a (by simp)
      simp only [List.cons_append, List.dropWhile_cons, ha, if_true]
      exact ih (fun b hb => h b (List.mem_cons_of_mem _ hb))
  exact this n.reverse (fun b hb => hn b (List.mem_reverse.1 hb))

theorem dropWhile_all_ne_slash (n : Bytes) (hn : SlashFree n) :
    n.reverse.dropWhile (fun x => x != 47) = [] := by
  have : ∀ (l : Bytes), (∀ b ∈ l, b ≠ 47) → l.dropWhile (fun x => x != 47) = [] := by
    intro l
    induction l with
    | nil => intro _; rfl
    | cons a as ih =>
      intro h
      have ha : (a != 47) = true := by simpa using h a (by simp)
      simp only [List.dropWhile_cons, ha, if_true]
      exact ih (fun b hb => h b (List.mem_cons_of_mem _ hb))
  exact this n.reverse (fun b hb => hn b (List.mem_reverse.1 hb))

/-- `pop_element` undoes `push_element` of a slash-free name -/
theorem popElem_pushPath (base n : Bytes) (hn : SlashFree n) : popElem (C04.pushPath base n) = base := by
  unfold C04.pushPath
  cases base with
  | nil => simp [popElem, dropWhile_all_ne_slash n hn]
  | cons b bs =>
    have hrev : ((b :: bs) ++ [47] ++ n).reverse = n.reverse ++ 47 :: (b :: bs).reverse := by simp
    simp only [List.isEmpty_cons, Bool.false_eq_true, if_false, popElem]
    rw [hrev, dropWhile_ne_slash n hn]
    simp

theorem popElem_joinPath (p : Path) (hp : ∀ n ∈ p, SlashFree n) :
    popElem (C04.joinPath p) = C04.joinPath p.dropLast := by
  rcases List.eq_nil_or_concat p with rfl | ⟨q, n, rfl⟩
  · rfl
  · rw [List.concat_eq_append] at hp ⊢
    rw [List.dropLast_concat, joinPath_snoc, popElem_pushPath _ _ (hp n (by simp))]

/-- the names an event pushes -/
def evName : Ev → Option Bytes
  | .push n => some n
  | .pushBack n => some n
  | _ => none

def EvSF (evs : List Ev) : Prop := ∀ ev ∈ evs, ∀ n, evName ev = some n → SlashFree n

structure SimB (rs : RS) (rb : RSB) : Prop where
  path : rb.path = C04.joinPath rs.path
  deque : rb.deque = rs.deque.map C04.joinPath
  recs : rb.recs = rs.recs.map Change.toB
  sfp : ∀ n ∈ rs.path, SlashFree n
  sfd : ∀ p ∈ rs.deque, ∀ n ∈ p, SlashFree n

theorem toB_withPath (c : RawChange) (p : Path) : (c.withPath p).toB = (c, C04.joinPath p) := by
  cases c <;> rfl

theorem recStepB_sim {rs rs' : RS} {rb : RSB} (ev : Ev) (hs : SimB rs rb)
    (hn : ∀ n, evName ev = some n → SlashFree n) (h : recStep rs ev = some rs') :
    ∃ rb', recStepB rb ev = some rb' ∧ SimB rs' rb' := by
  obtain ⟨path, deque, recs⟩ := rs
  obtain ⟨pathB, dequeB, recsB⟩ := rb
  obtain ⟨h1, h2, h3, h4, h5⟩ := hs
  simp only at h1 h2 h3 h4 h5
  subst h1 h2 h3
  cases ev with
  | popFront =>
    cases deque with
    | nil => simp [recStep] at h
    | cons p d =>
      simp only [recStep, Option.some.injEq] at h
      subst h
      exact ⟨_, rfl, ⟨rfl, rfl, rfl, fun n hn' => h5 p (by simp) n hn',
        fun q hq => h5 q (List.mem_cons_of_mem _ hq)⟩⟩
  | pushBack n =>
    simp only [recStep, Option.some.injEq] at h
    subst h
    have hsf := hn n rfl
    have hp' : ∀ x ∈ path ++ [n], SlashFree x := by
      intro x hx
      rcases List.mem_append.1 hx with hx | hx
      · exact h4 x hx
      · simp only [List.mem_singleton] at hx; subst hx; exact hsf
    refine ⟨_, rfl, ⟨(joinPath_snoc _ _).symm, by simp [joinPath_snoc], rfl, hp', ?_⟩⟩
    intro q hq
    rcases List.mem_append.1 hq with hq | hq
    · exact h5 q hq
    · simp only [List.mem_singleton] at hq; subst hq; exact hp'
  | push n =>
    simp only [recStep, Option.some.injEq] at h
    subst h
    have hsf := hn n rfl
    refine ⟨_, rfl, ⟨(joinPath_snoc _ _).symm, rfl, rfl, ?_, h5⟩⟩
    intro x hx
    rcases List.mem_append.1 hx with hx | hx
    · exact h4 x hx
    · simp only [List.mem_singleton] at hx; subst hx; exact hsf
  | pop =>
    simp only [recStep, Option.some.injEq] at h
    subst h
    exact ⟨_, rfl, ⟨popElem_joinPath path h4, rfl, rfl,
      fun n hn' => h4 n ((List.dropLast_prefix _).subset hn'), h5⟩⟩
  | visit c =>
    simp only [recStep, Option.some.injEq] at h
    subst h
    exact ⟨_, rfl, ⟨rfl, rfl, by simp [toB_withPath], h4, h5⟩⟩

theorem runEvsB_sim : ∀ (evs : List Ev) (rs rs' : RS) (rb : RSB), SimB rs rb → EvSF evs →
    runEvs rs evs = some rs' → ∃ rb', runEvsB rb evs = some rb' ∧ SimB rs' rb'
  | [], rs, rs', rb, hs, _, h => by
    simp only [runEvs, Option.some.injEq] at h
    subst h
    exact ⟨rb, rfl, hs⟩
  | ev :: evs, rs, rs', rb, hs, hsf, h => by
    simp only [runEvs] at h
    cases hr : recStep rs ev with
    | none => rw [hr] at h; cases h
    | some rs1 =>
      rw [hr] at h
      obtain ⟨rb1, g1, g2⟩ := recStepB_sim ev hs (hsf ev (by simp)) hr
      obtain ⟨rb2, g3, g4⟩ := runEvsB_sim evs rs1 rs' rb1 g2
        (fun e he => hsf e (List.mem_cons_of_mem _ he)) h
      exact ⟨rb2, by simp only [runEvsB, g1]; exact g3, g4⟩

/-! ### the walk only pushes names of entries -/

def NamesSF (t : List Entry) : Prop := ∀ e ∈ t, SlashFree e.name

def StoreSF (S : Assoc Bytes (List Entry)) : Prop := ∀ id t, aget id S = some t → NamesSF t

theorem evSF_nil : EvSF [] := fun _ h => by cases h

theorem evSF_append {a b : List Ev} (ha : EvSF a) (hb : EvSF b) : EvSF (a ++ b) := by
  intro ev hev
  rcases List.mem_append.1 hev with h | h
  · exact ha ev h
  · exact hb ev h

theorem evSF_of_names {evs : List Ev} {nm : Bytes} (hsf : SlashFree nm)
    (h : ∀ ev ∈ evs, ∀ n, evName ev = some n → n = nm) : EvSF evs :=
  fun ev hev n hn => (h ev hev n hn) ▸ hsf

theorem evSF_prePop (pp : Bool) : EvSF (prePop pp) := by
  cases pp
  · exact evSF_nil
  · intro ev hev n hn
    simp only [prePop, if_true, List.mem_singleton] at hev
    subst hev
    cases hn

theorem evSF_deleteEv (rel : Rel) (a : Entry) (acc : Acc) (h : SlashFree a.name) :
    EvSF (deleteEv rel a acc) := by
  apply evSF_of_names h
  intro ev hev n hn
  by_cases hd : a.isTree = true
  · simp only [deleteEv, hd, if_true, List.cons_append, List.nil_append, List.mem_cons,
      List.not_mem_nil, or_false] at hev
    rcases hev with rfl | rfl | rfl | rfl <;> simp_all [evName]
  · simp only [deleteEv, hd, if_false, Bool.false_eq_true, List.append_nil, List.mem_cons,
      List.not_mem_nil, or_false] at hev
    rcases hev with rfl | rfl <;> simp_all [evName]

theorem evSF_addEv (rel : Rel) (a : Entry) (acc : Acc) (h : SlashFree a.name) :
    EvSF (addEv rel a acc) := by
  apply evSF_of_names h
  intro ev hev n hn
  by_cases hd : a.isTree = true
  · simp only [addEv, hd, if_true, List.cons_append, List.nil_append, List.mem_cons,
      List.not_mem_nil, or_false] at hev
    rcases hev with rfl | rfl | rfl | rfl <;> simp_all [evName]
  · simp only [addEv, hd, if_false, Bool.false_eq_true, List.append_nil, List.mem_cons,
      List.not_mem_nil, or_false] at hev
    rcases hev with rfl | rfl <;> simp_all [evName]

theorem evSF_equalEv (rel : Rel) (a b : Entry) (acc : Acc) (h : SlashFree a.name) :
    EvSF (equalEv rel a b acc) := by
  apply evSF_of_names h
  intro ev hev n hn
  cases ev with
  | push m =>
    simp only [evName, Option.some.injEq] at hn
    subst hn
    cases ha : a.isTree <;> cases hb : b.isTree <;>
      simp only [equalEv, ha, hb] at hev <;>
      simp at hev <;>
      (try exact hev) <;> (try (split at hev <;> simp_all))
  | pushBack m =>
    simp only [evName, Option.some.injEq] at hn
    subst hn
    cases ha : a.isTree <;> cases hb : b.isTree <;>
      simp only [equalEv, ha, hb] at hev <;>
      simp at hev <;>
      (try exact hev) <;> (try (split at hev <;> simp_all))
  | popFront => cases hn
  | pop => cases hn
  | visit c => cases hn

theorem namesSF_tail {a : Entry} {l : List Entry} (h : NamesSF (a :: l)) : NamesSF l :=
  fun e he => h e (List.mem_cons_of_mem _ he)

theorem evSF_mergeLevelEv (dir : Path) (rel : Rel) :
    ∀ (fuel : Nat) (l r : List Entry) (acc : Acc) (pp : Bool), NamesSF l → NamesSF r →
      EvSF (mergeLevelEv dir rel fuel l r acc pp)
  | 0, _, _, _, _, _, _ => by simp only [mergeLevelEv]; exact evSF_nil
  | fuel + 1, [], [], _, pp, _, _ => by simp only [mergeLevelEv]; exact evSF_prePop pp
  | fuel + 1, a :: l, [], acc, pp, hl, hr => by
    simp only [mergeLevelEv]
    exact evSF_append (evSF_append (evSF_prePop pp) (evSF_deleteEv rel a acc (hl a (by simp))))
      (evSF_mergeLevelEv dir rel fuel l [] _ true (namesSF_tail hl) hr)
  | fuel + 1, [], b :: r, acc, pp, hl, hr => by
    simp only [mergeLevelEv]
    exact evSF_append (evSF_append (evSF_prePop pp) (evSF_addEv rel b acc (hr b (by simp))))
      (evSF_mergeLevelEv dir rel fuel [] r _ true hl (namesSF_tail hr))
  | fuel + 1, a :: l, b :: r, acc, pp, hl, hr => by
    simp only [mergeLevelEv]
    cases entryCmp a b with
    | eq =>
      exact evSF_append (evSF_append (evSF_prePop pp) (evSF_equalEv rel a b acc (hl a (by simp))))
        (evSF_mergeLevelEv dir rel fuel l r _ true (namesSF_tail hl) (namesSF_tail hr))
    | lt =>
      exact evSF_append (evSF_append (evSF_prePop pp) (evSF_deleteEv rel a acc (hl a (by simp))))
        (evSF_mergeLevelEv dir rel fuel l (b :: r) _ true (namesSF_tail hl) hr)
    | gt =>
      exact evSF_append (evSF_append (evSF_prePop pp) (evSF_addEv rel b acc (hr b (by simp))))
        (evSF_mergeLevelEv dir rel fuel (a :: l) r _ true hl (namesSF_tail hr))

theorem loadItem_namesSF {S : Assoc Bytes (List Entry)} (hS : StoreSF S) {it : QItem}
    {tl tr : List Entry} (h : loadItem S it = some (tl, tr)) : NamesSF tl ∧ NamesSF tr := by
  have hnil : NamesSF [] := fun _ h => by cases h
  unfold loadItem at h
  cases hl : it.lhs with
  | none =>
    cases hr : it.rhs with
    | none => simp only [hl, hr, Option.some.injEq, Prod.mk.injEq] at h; exact ⟨h.1 ▸ hnil, h.2 ▸ hnil⟩
    | some r =>
      simp only [hl, hr] at h
      cases hg : aget r S with
      | none => simp [hg] at h
      | some t =>
        simp only [hg, Option.map_some, Option.some.injEq, Prod.mk.injEq] at h
        exact ⟨h.1 ▸ hnil, h.2 ▸ hS r t hg⟩
  | some l =>
    cases hr : it.rhs with
    | none =>
      simp only [hl, hr] at h
      cases hg : aget l S with
      | none => simp [hg] at h
      | some t =>
        simp only [hg, Option.map_some, Option.some.injEq, Prod.mk.injEq] at h
        exact ⟨h.1 ▸ hS l t hg, h.2 ▸ hnil⟩
    | some r =>
      simp only [hl, hr] at h
      cases hg1 : aget l S with
      | none => simp [hg1] at h
      | some t1 =>
        cases hg2 : aget r S with
        | none => simp [hg1, hg2] at h
        | some t2 =>
          simp only [hg1, hg2, Option.some.injEq, Prod.mk.injEq] at h
          exact ⟨h.1 ▸ hS l t1 hg1, h.2 ▸ hS r t2 hg2⟩

theorem evSF_popFront : EvSF [Ev.popFront] := by
  intro ev hev n hn
  simp only [List.mem_singleton] at hev
  subst hev
  cases hn

theorem evSF_runLayerEv {S : Assoc Bytes (List Entry)} (hS : StoreSF S) :
    ∀ (q : List QItem) (acc : Acc), EvSF (runLayerEv S q acc)
  | [], _ => by simp only [runLayerEv]; exact evSF_nil
  | it :: rest, acc => by
    simp only [runLayerEv]
    cases hl : loadItem S it with
    | none => exact evSF_popFront
    | some tt =>
      obtain ⟨tl, tr⟩ := tt
      obtain ⟨h1, h2⟩ := loadItem_namesSF hS hl
      exact evSF_append (evSF_append evSF_popFront (evSF_mergeLevelEv _ _ _ tl tr acc false h1 h2))
        (evSF_runLayerEv hS rest _)

theorem evSF_runLayersEv {S : Assoc Bytes (List Entry)} (hS : StoreSF S) :
    ∀ (depth : Nat) (q : List QItem) (recs : List Change) (cid : Nat), EvSF (runLayersEv S depth q recs cid)
  | 0, _, _, _ => by simp only [runLayersEv]; exact evSF_nil
  | depth + 1, q, recs, cid => by
    simp only [runLayersEv]
    by_cases hq : q.isEmpty = true
    · rw [if_pos hq]; exact evSF_nil
    · rw [if_neg hq]
      apply evSF_append (evSF_runLayerEv hS q _)
      cases runLayer S q ⟨recs, [], cid⟩ with
      | none => exact evSF_nil
      | some acc => exact evSF_runLayersEv hS depth _ _ _

theorem evSF_diffEv {S : Assoc Bytes (List Entry)} (hS : StoreSF S) (depth : Nat) {l r : List Entry}
    (hl : NamesSF l) (hr : NamesSF r) : EvSF (diffEv S depth l r) := by
  simp only [diffEv]
  exact evSF_append (evSF_mergeLevelEv _ _ _ l r _ false hl hr) (evSF_runLayersEv hS depth _ _ _)

/-- The real `Recorder` (byte-string path, `pop_element` cutting at the last `/`) fed with the
delegate calls of the walk records the walk's records with their paths `/`-joined. -/
theorem diffEv_runB {S : Assoc Bytes (List Entry)} (hS : StoreSF S) (depth : Nat) {l r : List Entry}
    (hl : NamesSF l) (hr : NamesSF r) (out : List Change) (h : diff S depth l r = .ok out) :
    ∃ rb, runEvsB ⟨[], [], []⟩ (diffEv S depth l r) = some rb ∧ rb.recs = out.map Change.toB ∧
      rb.deque = [] := by
  obtain ⟨rs, h1, h2, h3⟩ := diffEv_run S depth l r out h
  obtain ⟨rb, g1, g2⟩ := runEvsB_sim _ ⟨[], [], []⟩ rs ⟨[], [], []⟩
    ⟨rfl, rfl, rfl, (fun _ hx => by cases hx), (fun _ hx => by cases hx)⟩ (evSF_diffEv hS depth hl hr) h1
  refine ⟨rb, g1, ?_, ?_⟩
  · rw [g2.recs, h2]
  · rw [g2.deque, h3]; rfl

end GixModel.C44
