import GixModel.Basic.Hex
/-
Byte-scanning primitives shared by the C43 model (Rust: `bstr::ByteSlice::{find, find_byte,
find_byteset}`) and the C43 spec (C: `memchr`, `memcmp`). A position is never an index here: a
successful search returns the pieces of the haystack (before the hit, the hit, after the hit), which
is what the callers slice out with `src[ofs..][..pos]`, `src[ofs + pos]`, `&src[ofs + pos + 1..]`
in Rust and with `dollar - src`, `*dollar`, `dollar + 1` in C.
-/
namespace GixModel.C43Scan
open GixModel

/-- `memchr` / `find_byte` / `find_byteset` generalised to a predicate: split at the first byte
satisfying `p`. `some (pre, hit, post)` means `bs = pre ++ hit :: post`, no byte of `pre`
satisfies `p`, `p hit`. -/
def breakAt (p : UInt8 → Bool) : Bytes → Option (Bytes × UInt8 × Bytes)
  | [] => none
  | b :: rest =>
    if p b then some ([], b, rest)
    else match breakAt p rest with
      | none => none
      | some (pre, hit, post) => some (b :: pre, hit, post)

/-- `memcmp(pat, s, pat.len) == 0` when at least `pat.len` bytes are available. -/
def startsWith (pat : Bytes) (bs : Bytes) : Bool := bs.take pat.length == pat

/-- `ByteSlice::find(pat)` for a non-empty needle: split around the first occurrence of `pat`.
`some (pre, post)` means `bs = pre ++ pat ++ post` and `pat` does not occur earlier. -/
def splitOnSub (pat : Bytes) : Bytes → Option (Bytes × Bytes)
  | [] => none
  | b :: rest =>
    if startsWith pat (b :: rest) then some ([], (b :: rest).drop pat.length)
    else match splitOnSub pat rest with
      | none => none
      | some (pre, post) => some (b :: pre, post)

end GixModel.C43Scan
