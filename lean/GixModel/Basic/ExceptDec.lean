/-
`DecidableEq (Except ε α)` (core does not provide it): used by `decide` in non-vacuity examples
over models whose panics/errors are `Except` outcomes.
-/
deriving instance DecidableEq for Except
