import GixModel.Basic.Hex
/-
Decimal / octal rendering of integers as bytes (what `itoa` and `EntryMode::as_bytes` produce)
and their inverses.
-/
namespace GixModel

/-- digits of `n` in base `b` (2 ≤ b ≤ 10), most significant first, as ASCII bytes; fuelled so
that it is structurally recursive — `fuel = n + 1` always suffices (see `Lemmas.Dec`). -/
def digitsFuel (b : Nat) : Nat → Nat → Bytes
  | 0, _ => []
  | fuel + 1, n =>
    if n < b then [UInt8.ofNat (48 + n)]
    else digitsFuel b fuel (n / b) ++ [UInt8.ofNat (48 + n % b)]

/-- 64 iterations are enough for every `n < 2^64` in any base ≥ 2; callers with unbounded `Nat`
use `n + 1`. We use `n.log2 + 2` which is always enough and small. -/
def natDec (n : Nat) : Bytes := digitsFuel 10 (n.log2 + 2) n

def natOct (n : Nat) : Bytes := digitsFuel 8 (n.log2 + 2) n

def intDec (i : Int) : Bytes :=
  if i < 0 then 45 :: natDec i.natAbs else natDec i.natAbs

def isDigit (b : UInt8) : Bool := 48 ≤ b && b ≤ 57

/-- parse a non-empty all-digit byte string -/
def parseNatDec? (bs : Bytes) : Option Nat :=
  if bs.isEmpty || !bs.all isDigit then none
  else some (bs.foldl (fun acc b => acc * 10 + (b.toNat - 48)) 0)

def natOfString? (s : String) : Option Nat := s.toNat?

def intOfString? (s : String) : Option Int := s.toInt?

end GixModel
