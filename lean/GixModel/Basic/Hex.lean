/-
Bytes are `List UInt8` everywhere in the models. On the wire between the Rust harness and the Lean
drivers a byte string is lower-case hex, the empty string being written `-`.
-/
namespace GixModel

abbrev Bytes := List UInt8

def hexDigit (n : Nat) : Char :=
  if n < 10 then Char.ofNat (48 + n) else Char.ofNat (87 + n)

def hexOfBytes (bs : Bytes) : String :=
  if bs.isEmpty then "-" else
  String.ofList (bs.flatMap fun b => [hexDigit (b.toNat / 16), hexDigit (b.toNat % 16)])

def hexVal (c : Char) : Option Nat :=
  if '0' ≤ c ∧ c ≤ '9' then some (c.toNat - 48)
  else if 'a' ≤ c ∧ c ≤ 'f' then some (c.toNat - 87)
  else if 'A' ≤ c ∧ c ≤ 'F' then some (c.toNat - 55)
  else none

def bytesOfHexChars : List Char → Option Bytes
  | [] => some []
  | [_] => none
  | a :: b :: rest => do
    let x ← hexVal a
    let y ← hexVal b
    let r ← bytesOfHexChars rest
    pure (UInt8.ofNat (x * 16 + y) :: r)

def bytesOfHex (s : String) : Option Bytes :=
  if s == "-" then some [] else bytesOfHexChars s.toList

def bytesOfString (s : String) : Bytes := s.toUTF8.toList

/-- Lossy rendering for diagnostics only. -/
def asciiOfBytes (bs : Bytes) : String :=
  String.ofList (bs.map fun b => if 32 ≤ b.toNat ∧ b.toNat < 127 then Char.ofNat b.toNat else '?')

end GixModel
