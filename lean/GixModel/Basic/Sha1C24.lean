import GixModel.Basic.Hex
/-
SHA-1 over byte lists, used ONLY to instantiate the `sha1` parameter of the C24/C25 index models
inside their drivers (the end-of-index-entry extension hashes the signatures and sizes of the
preceding extensions). No theorem mentions this implementation: in `Props/` the hash is an opaque
parameter. It is validated by the correspondence run (gitoxide accepts/rejects an EOIE exactly
when the model does) and by the `sha1` driver op against `git hash-object`-style known vectors.
-/
namespace GixModel.Sha1C24
open GixModel

def rotl (x : UInt32) (n : UInt32) : UInt32 := (x <<< n) ||| (x >>> (32 - n))

def be32 (x : UInt32) : Bytes :=
  [(x >>> 24).toUInt8, (x >>> 16).toUInt8, (x >>> 8).toUInt8, x.toUInt8]

def be64Nat (n : Nat) : Bytes :=
  (List.range 8).map fun i => UInt8.ofNat (n / 256 ^ (7 - i) % 256)

def pad (msg : Bytes) : Bytes :=
  msg ++ [0x80] ++ List.replicate ((119 - msg.length % 64) % 64) 0 ++ be64Nat (msg.length * 8)

def word (b0 b1 b2 b3 : UInt8) : UInt32 :=
  (b0.toUInt32 <<< 24) ||| (b1.toUInt32 <<< 16) ||| (b2.toUInt32 <<< 8) ||| b3.toUInt32

def wordsOf : Nat → Bytes → Array UInt32 → Array UInt32
  | 0, _, acc => acc
  | n + 1, b0 :: b1 :: b2 :: b3 :: rest, acc => wordsOf n rest (acc.push (word b0 b1 b2 b3))
  | _ + 1, _, acc => acc

def extend (w : Array UInt32) : Array UInt32 :=
  (List.range 64).foldl (fun (w : Array UInt32) i =>
    let t := i + 16
    w.push (rotl (w[t - 3]! ^^^ w[t - 8]! ^^^ w[t - 14]! ^^^ w[t - 16]!) 1)) w

structure St where
  (a b c d e : UInt32)

def round (w : Array UInt32) (s : St) (i : Nat) : St :=
  let (f, k) : UInt32 × UInt32 :=
    if i < 20 then ((s.b &&& s.c) ||| ((~~~ s.b) &&& s.d), 0x5A827999)
    else if i < 40 then (s.b ^^^ s.c ^^^ s.d, 0x6ED9EBA1)
    else if i < 60 then ((s.b &&& s.c) ||| (s.b &&& s.d) ||| (s.c &&& s.d), 0x8F1BBCDC)
    else (s.b ^^^ s.c ^^^ s.d, 0xCA62C1D6)
  let temp := rotl s.a 5 + f + s.e + k + w[i]!
  { a := temp, b := s.a, c := rotl s.b 30, d := s.c, e := s.d }

def block (h : St) (chunk : Bytes) : St :=
  let w := extend (wordsOf 16 chunk (Array.mkEmpty 80))
  let s := (List.range 80).foldl (round w) h
  { a := h.a + s.a, b := h.b + s.b, c := h.c + s.c, d := h.d + s.d, e := h.e + s.e }

def blocks : Nat → St → Bytes → St
  | 0, h, _ => h
  | n + 1, h, bs => blocks n (block h (bs.take 64)) (bs.drop 64)

def sha1 (msg : Bytes) : Bytes :=
  let p := pad msg
  let h := blocks (p.length / 64) ⟨0x67452301, 0xEFCDAB89, 0x98BADCFE, 0x10325476, 0xC3D2E1F0⟩ p
  be32 h.a ++ be32 h.b ++ be32 h.c ++ be32 h.d ++ be32 h.e

end GixModel.Sha1C24
