/-
Proleptic Gregorian calendar on unbounded integers (C52): days since 1970-01-01 <-> (year, month, day),
day of the week. The arithmetic is the usual era/day-of-era decomposition (400-year eras of
146097 days, "computational" years starting on March 1st).
-/
namespace GixModel.Civil

def isLeap (y : Int) : Bool := y % 4 == 0 && (y % 100 != 0 || y % 400 == 0)

def daysInMonth (y : Int) (m : Nat) : Nat :=
  if m == 2 then (if isLeap y then 29 else 28)
  else if m == 4 || m == 6 || m == 9 || m == 11 then 30
  else 31

/-- a date of the proleptic Gregorian calendar -/
def ValidDate (y : Int) (m d : Nat) : Prop := 1 ≤ m ∧ m ≤ 12 ∧ 1 ≤ d ∧ d ≤ daysInMonth y m

instance (y : Int) (m d : Nat) : Decidable (ValidDate y m d) := by unfold ValidDate; infer_instance

/-- month index counted from March (0 = March … 11 = February) -/
def mpOfMonth (m : Nat) : Nat := if m > 2 then m - 3 else m + 9

/-- day of the computational year (0 = March 1st) -/
def doyOf (m d : Nat) : Nat := (153 * mpOfMonth m + 2) / 5 + d - 1

/-- days before the computational year `yoe` (0..399) within its era -/
def doyBase (yoe : Nat) : Nat := 365 * yoe + yoe / 4 - yoe / 100

/-- year of the era (0..399) of the day of the era (0..146096) -/
def yoeOfDoe (doe : Nat) : Nat := (doe - doe / 1460 + doe / 36524 - doe / 146096) / 365

def mpOfDoy (doy : Nat) : Nat := (5 * doy + 2) / 153

def dayOfDoy (doy : Nat) : Nat := doy - (153 * mpOfDoy doy + 2) / 5 + 1

def monthOfMp (mp : Nat) : Nat := if mp < 10 then mp + 3 else mp - 9

/-- days since 1970-01-01 -/
def daysFromCivil (y : Int) (m d : Nat) : Int :=
  let y' := if m ≤ 2 then y - 1 else y
  let era := y' / 400
  let yoe := (y' - era * 400).toNat
  era * 146097 + ((doyBase yoe + doyOf m d : Nat) : Int) - 719468

/-- (year, month, day) of the day number `z` -/
def civilFromDays (z : Int) : Int × Nat × Nat :=
  let z' := z + 719468
  let era := z' / 146097
  let doe := (z' - era * 146097).toNat
  let yoe := yoeOfDoe doe
  let doy := doe - doyBase yoe
  let m := monthOfMp (mpOfDoy doy)
  let y : Int := (yoe : Int) + era * 400
  ((if m ≤ 2 then y + 1 else y), m, dayOfDoy doy)

/-- 0 = Sunday … 6 = Saturday (1970-01-01 was a Thursday) -/
def weekday (days : Int) : Nat := ((days + 4) % 7).toNat

end GixModel.Civil
