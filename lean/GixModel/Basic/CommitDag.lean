/-
Abstract commit DAGs for the history-walking properties (C46 merge bases, C47 commit walks).

* commits are natural numbers; `parents`, the commit `time` and the `gen`eration number (as the
  traversal code sees it: the commit-graph's generation, or `GENERATION_NUMBER_INFINITY` for a
  commit that is not in a commit-graph file) are plain data;
* `Reach g x y` — `y` is an ancestor of `x` (reflexive);
* acyclicity is a rank function, finiteness a parent-closed node list;
* `PQ` is the interface of `gix_revwalk::PriorityQueue` (a `std::collections::BinaryHeap`): a
  multiset container. The theorems quantify over EVERY lawful implementation, i.e. over every
  tie-breaking (and, where the order does not matter at all, every pop order) the heap may have.
-/
namespace GixModel.CG

structure Dag where
  parents : Nat → List Nat
  time : Nat → Int
  gen : Nat → Nat

/-- `Reach g x y`: `y` is reachable from `x` by following parent links (`y` is an ancestor of
`x`, or `x` itself). -/
inductive Reach (g : Dag) : Nat → Nat → Prop
  | refl (x : Nat) : Reach g x x
  | head {x p y : Nat} : p ∈ g.parents x → Reach g p y → Reach g x y

/-- acyclic: some rank strictly decreases along every parent link -/
def Acyclic (g : Dag) : Prop := ∃ rank : Nat → Nat, ∀ c p, p ∈ g.parents c → rank p < rank c

/-- `nodes` is closed under taking parents (no missing objects / shallow boundary) -/
def Closed (g : Dag) (nodes : List Nat) : Prop := ∀ c, c ∈ nodes → ∀ p, p ∈ g.parents c → p ∈ nodes

theorem Reach.trans {g : Dag} {x y z : Nat} (h1 : Reach g x y) (h2 : Reach g y z) : Reach g x z := by
  induction h1 with
  | refl => exact h2
  | head hp _ ih => exact Reach.head hp (ih h2)

theorem Reach.single {g : Dag} {x p : Nat} (h : p ∈ g.parents x) : Reach g x p :=
  Reach.head h (Reach.refl p)

theorem Reach.tail {g : Dag} {x y p : Nat} (h1 : Reach g x y) (hp : p ∈ g.parents y) : Reach g x p :=
  h1.trans (Reach.single hp)

/-- induction from the start of the path: the motive holds at `a` and is inherited by parents -/
theorem Reach.induction_tail {g : Dag} {a : Nat} {motive : Nat → Prop} (h0 : motive a)
    (hstep : ∀ y p, Reach g a y → motive y → p ∈ g.parents y → motive p) :
    ∀ {y}, Reach g a y → motive y := by
  intro y h
  -- generalise the start point
  have key : ∀ x y, Reach g x y → Reach g a x → motive x → motive y := by
    intro x y hxy
    induction hxy with
    | refl => intro _ hm; exact hm
    | head hp _ ih => intro hax hm; exact ih (hax.tail hp) (hstep _ _ hax hm hp)
  exact key a y h (Reach.refl a) h0

theorem Reach.rank_le {g : Dag} {rank : Nat → Nat} (hr : ∀ c p, p ∈ g.parents c → rank p < rank c)
    {x y : Nat} (h : Reach g x y) : rank y ≤ rank x := by
  induction h with
  | refl => exact Nat.le_refl _
  | head hp _ ih => exact Nat.le_trans ih (Nat.le_of_lt (hr _ _ hp))

theorem Reach.rank_lt {g : Dag} {rank : Nat → Nat} (hr : ∀ c p, p ∈ g.parents c → rank p < rank c)
    {x y : Nat} (h : Reach g x y) (hne : x ≠ y) : rank y < rank x := by
  cases h with
  | refl => exact absurd rfl hne
  | head hp h2 => exact Nat.lt_of_le_of_lt (h2.rank_le hr) (hr _ _ hp)

theorem Reach.antisymm {g : Dag} (hac : Acyclic g) {x y : Nat} (h1 : Reach g x y) (h2 : Reach g y x) :
    x = y := by
  obtain ⟨rank, hr⟩ := hac
  apply Classical.byContradiction
  intro hne
  have a := h1.rank_lt hr hne
  have b := h2.rank_le hr
  omega

theorem Reach.mem_closed {g : Dag} {nodes : List Nat} (hc : Closed g nodes) {x y : Nat}
    (h : Reach g x y) (hx : x ∈ nodes) : y ∈ nodes := by
  induction h with
  | refl => exact hx
  | head hp _ ih => exact ih (hc _ hx _ hp)

/-- a proper ancestor is reached through one of the parents -/
theorem Reach.of_ne {g : Dag} {x y : Nat} (h : Reach g x y) (hne : x ≠ y) :
    ∃ p, p ∈ g.parents x ∧ Reach g p y := by
  cases h with
  | refl => exact absurd rfl hne
  | head hp h2 => exact ⟨_, hp, h2⟩

/-- generation numbers never increase towards the parents: true for commit-graph generations
(strictly decreasing inside the file; a commit outside the file has INFINITY, and the file is
closed under parents) -/
def GenMono (g : Dag) : Prop := ∀ c p, p ∈ g.parents c → g.gen p ≤ g.gen c

theorem Reach.gen_le {g : Dag} (hm : GenMono g) {x y : Nat} (h : Reach g x y) : g.gen y ≤ g.gen x := by
  induction h with
  | refl => exact Nat.le_refl _
  | head hp _ ih => exact Nat.le_trans ih (hm _ _ hp)

/-- The interface of `gix_revwalk::PriorityQueue<K, Nat>`: insert, pop, iterate. -/
structure PQ (K : Type) where
  Q : Type
  empty : Q
  insert : K → Nat → Q → Q
  pop : Q → Option ((K × Nat) × Q)
  items : Q → List (K × Nat)

/-- What every implementation of the queue satisfies as a container (a `BinaryHeap` does): the
queue's contents are a multiset; `pop` fails only when it is empty. -/
structure PQ.Lawful {K : Type} (q : PQ K) : Prop where
  items_empty : q.items q.empty = []
  items_insert : ∀ k v s, (q.items (q.insert k v s)).Perm ((k, v) :: q.items s)
  pop_none : ∀ s, q.pop s = none → q.items s = []
  pop_some : ∀ s e s', q.pop s = some (e, s') → (q.items s).Perm (e :: q.items s')

/-- The queue hands out a greatest element first (`BinaryHeap` is a max-heap); ties are broken in
an unspecified way. -/
def PQ.MaxFirst {K : Type} (q : PQ K) (le : K → K → Bool) : Prop :=
  ∀ s e s', q.pop s = some (e, s') → ∀ x, x ∈ q.items s → le x.1 e.1 = true

/-- outcome of a fuelled model function: a value, a Rust panic (`expect`, index out of bounds,
arithmetic overflow), or fuel exhaustion (never happens with the fuel the lemmas prescribe) -/
inductive Res (α : Type) where
  | ok (a : α)
  | panic
  | fuel
  deriving Repr, DecidableEq

/-- executable reference queue: a list kept sorted descending by key, FIFO among equal keys -/
def listInsert {K : Type} (le : K → K → Bool) (k : K) (v : Nat) : List (K × Nat) → List (K × Nat)
  | [] => [(k, v)]
  | e :: rest => if le k e.1 then e :: listInsert le k v rest else (k, v) :: e :: rest

def listPQ {K : Type} (le : K → K → Bool) : PQ K where
  Q := List (K × Nat)
  empty := []
  insert := fun k v s => listInsert le k v s
  pop := fun s => match s with
    | [] => none
    | e :: rest => some (e, rest)
  items := fun s => s

theorem listInsert_perm {K : Type} (le : K → K → Bool) (k : K) (v : Nat) (s : List (K × Nat)) :
    (listInsert le k v s).Perm ((k, v) :: s) := by
  induction s with
  | nil => exact List.Perm.refl _
  | cons e rest ih =>
    unfold listInsert
    split
    · exact (List.Perm.cons e ih).trans (List.Perm.swap _ _ _)
    · exact List.Perm.refl _

theorem listPQ_lawful {K : Type} (le : K → K → Bool) : (listPQ le).Lawful where
  items_empty := rfl
  items_insert := fun k v s => listInsert_perm le k v s
  pop_none := by
    intro s h
    cases s with
    | nil => rfl
    | cons e rest => simp [listPQ] at h
  pop_some := by
    intro s e s' h
    cases s with
    | nil => simp [listPQ] at h
    | cons e0 rest =>
      simp only [listPQ, Option.some.injEq] at h
      cases h
      exact List.Perm.refl _

end GixModel.CG
