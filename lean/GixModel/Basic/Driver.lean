/-
The line protocol: the harness writes one operation per line (`<op> <arg> <arg> …`, arguments
separated by single spaces, byte strings in hex), the driver answers with one canonical
observation line per operation.
-/
namespace GixModel

partial def driverLoop (h : IO.FS.Stream) (out : IO.FS.Stream)
    (handle : List String → String) : IO Unit := do
  let line ← h.getLine
  if line.isEmpty then
    out.flush
    return ()
  let l := (line.dropEndWhile (fun c => c == '\n' || c == '\r')).toString
  out.putStrLn (handle (l.splitOn " "))
  driverLoop h out handle

def driverMain (handle : List String → String) : IO Unit := do
  let stdin ← IO.getStdin
  let stdout ← IO.getStdout
  driverLoop stdin stdout handle

end GixModel
