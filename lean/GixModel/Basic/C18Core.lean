import GixModel.Basic.Hex
/-
C18 — core types shared by the model (Model/C18.lean) and the git-side spec (Spec/C18.lean):
ref names, abstract ref values, the byte order of names.
-/
namespace GixModel.C18
open GixModel

abbrev Name := Bytes

inductive Target where
  | id (n : Nat)
  | sym (t : Name)
  | broken
  deriving DecidableEq, Repr

abbrev Item := Name × Target

/-- `Ord for [u8]`: lexicographic, bytes unsigned, a proper prefix is smaller -/
def cmpB : Bytes → Bytes → Ordering
  | [], [] => .eq
  | [], _ :: _ => .lt
  | _ :: _, [] => .gt
  | a :: as, b :: bs =>
    if a.toNat < b.toNat then .lt
    else if b.toNat < a.toNat then .gt
    else cmpB as bs

/-- `<[u8]>::starts_with` -/
def startsWith (pre : Bytes) (n : Bytes) : Bool := pre.isPrefixOf n

def refsSlash : Bytes := [114, 101, 102, 115, 47]                                   -- "refs/"
def mainWt : Bytes := [109, 97, 105, 110, 45, 119, 111, 114, 107, 116, 114, 101, 101, 47]  -- "main-worktree/"
def worktrees : Bytes := [119, 111, 114, 107, 116, 114, 101, 101, 115, 47]          -- "worktrees/"
def tagsC : Bytes := [116, 97, 103, 115]
def headsC : Bytes := [104, 101, 97, 100, 115]
def remotesC : Bytes := [114, 101, 109, 111, 116, 101, 115]
def headName : Bytes := [72, 69, 65, 68]                                            -- "HEAD"


inductive Found where
  | ref (name : Name) (t : Target)
  | none
  | err
  deriving DecidableEq, Repr


end GixModel.C18
