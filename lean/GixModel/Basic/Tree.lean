import GixModel.Basic.Dec
/-
Shared tree definitions (used by C03, C04, C44): tree entries, gitoxide's entry order, the stable
sort used by `entries.sort()`, and Rust's `slice::binary_search_by`.

Rust code modelled (all in /repo/gix-object/src/tree):
  EntryMode::is_tree                       mod.rs      `self.0 & IFMT == 0o040000`
  <Entry as Ord>::cmp, <EntryRef as Ord>::cmp  mod.rs  (identical bodies)
  editor::cmp_entry_with_name              editor.rs   (same body, rhs given as name + is_tree)
and, from the Rust standard library (1.82+; tied by the correspondence harness):
  <[T]>::binary_search_by                  the branch-free loop `while size > 1 { half = size/2; … }`
  <[T]>::sort                              a *stable* sort: modelled as stable insertion sort (every
                                           stable sort computes the same list for a total preorder)
-/
namespace GixModel.Tree
open GixModel

structure Entry where
  mode : Nat          -- u16
  name : Bytes
  oid  : Bytes
  deriving Repr, DecidableEq

/-- `EntryMode::is_tree`: `mode & 0o170000 == 0o040000` -/
def isTreeMode (m : Nat) : Bool := (m &&& 0o170000) == 0o040000

def Entry.isTree (e : Entry) : Bool := isTreeMode e.mode

/-- `<[u8] as Ord>::cmp`: lexicographic, a proper prefix is smaller. -/
def cmpBytes : Bytes → Bytes → Ordering
  | [], [] => .eq
  | [], _ :: _ => .lt
  | _ :: _, [] => .gt
  | a :: as, b :: bs => if a < b then .lt else if b < a then .gt else cmpBytes as bs

/-- `<Option<&u8> as Ord>::cmp`: `None < Some(_)`. -/
def cmpOptByte : Option UInt8 → Option UInt8 → Ordering
  | none, none => .eq
  | none, some _ => .lt
  | some _, none => .gt
  | some a, some b => if a < b then .lt else if b < a then .gt else .eq

/-- `name.get(common).or_else(|| is_tree.then_some(&b'/'))` -/
def nextByte (name : Bytes) (common : Nat) (isTree : Bool) : Option UInt8 :=
  match name[common]? with
  | some c => some c
  | none => if isTree then some 47 else none

/-- The common body of `Ord for Entry`, `Ord for EntryRef` and `cmp_entry_with_name`:
```
let common = a.len().min(b.len());
a[..common].cmp(&b[..common]).then_with(|| next(a).cmp(&next(b)))
``` -/
def cmpNames (n1 : Bytes) (t1 : Bool) (n2 : Bytes) (t2 : Bool) : Ordering :=
  let common := min n1.length n2.length
  (cmpBytes (n1.take common) (n2.take common)).then
    (cmpOptByte (nextByte n1 common t1) (nextByte n2 common t2))

/-- `<tree::Entry as Ord>::cmp` -/
def entryCmp (a b : Entry) : Ordering := cmpNames a.name a.isTree b.name b.isTree

/-- `editor::cmp_entry_with_name` -/
def cmpEntryWithName (a : Entry) (name : Bytes) (isTree : Bool) : Ordering :=
  cmpNames a.name a.isTree name isTree

/-- insert `x` (the next input element) before the first element that is greater than it: elements
comparing `Equal` came earlier in the input and stay in front of `x` (stable) -/
def insertBy (cmp : α → α → Ordering) (x : α) : List α → List α
  | [] => [x]
  | y :: ys => if cmp y x == .gt then x :: y :: ys else y :: insertBy cmp x ys

/-- a stable sort: elements comparing `Equal` keep their input order -/
def sortBy (cmp : α → α → Ordering) (l : List α) : List α :=
  l.foldl (fun acc x => insertBy cmp x acc) []

/-- `entries.sort()` -/
def sortEntries (l : List Entry) : List Entry := sortBy entryCmp l

/-- Result of `binary_search_by`: `Ok(idx)`, `Err(insertion idx)`; `oob` stands for the
`get_unchecked` of the real code reading outside the slice (proved unreachable). -/
inductive Search where
  | found (i : Nat)
  | insertAt (i : Nat)
  | oob
  deriving Repr, DecidableEq

/-- the loop `while size > 1 { half = size/2; mid = base+half; base = if f(mid)==Greater {base} else {mid}; size -= half }`
on explicit fuel (`fuel = len` suffices: `size` strictly decreases); returns the final `base`,
or `none` on an out-of-bounds read. -/
def searchLoop (f : α → Ordering) (l : List α) : Nat → Nat → Nat → Option Nat
  | 0, base, _ => some base
  | fuel + 1, base, size =>
    if size > 1 then
      let half := size / 2
      let mid := base + half
      match l[mid]? with
      | none => none
      | some e => searchLoop f l fuel (if f e == .gt then base else mid) (size - half)
    else some base

/-- `<[T]>::binary_search_by` -/
def binarySearchBy (l : List α) (f : α → Ordering) : Search :=
  if l.length == 0 then .insertAt 0
  else match searchLoop f l l.length 0 l.length with
    | none => .oob
    | some base =>
      match l[base]? with
      | none => .oob
      | some e =>
        match f e with
        | .eq => .found base
        | .lt => .insertAt (base + 1)
        | .gt => .insertAt base

/-- `TreeRef::bisect_entry(name, is_dir)`: binary search with a probe entry of kind Tree / Blob. -/
def bisectEntry (es : List Entry) (name : Bytes) (isDir : Bool) : Option Entry :=
  match binarySearchBy es (fun e => cmpNames e.name e.isTree name isDir) with
  | .found i => es[i]?
  | _ => none

/-- the linear scan the property compares with -/
def scanEntry (es : List Entry) (name : Bytes) (isDir : Bool) : Option Entry :=
  es.find? (fun e => e.name == name && e.isTree == isDir)

/-- one entry of `Tree::write_to`: `<octal mode> SP <name> NUL <oid>`; `none` = `Err(NullbyteInFilename)` -/
def Entry.write (e : Entry) : Option Bytes :=
  if e.name.contains 0 then none
  else some (natOct e.mode ++ [32] ++ e.name ++ [0] ++ e.oid)

/-- `Tree::write_to` -/
def writeEntries : List Entry → Option Bytes
  | [] => some []
  | e :: es =>
    match e.write, writeEntries es with
    | some a, some b => some (a ++ b)
    | _, _ => none

def ordStr : Ordering → String
  | .lt => "lt" | .eq => "eq" | .gt => "gt"

end GixModel.Tree
