import GixModel.Basic.Hex
/-
ASCII case folding and the i64 range, shared by the C27 model (gitoxide side) and spec (git side).
-/
namespace GixModel

/-- `u8::to_ascii_lowercase` / C `tolower` in the C locale -/
def asciiLower (c : UInt8) : UInt8 := if 65 ≤ c && c ≤ 90 then c + 32 else c

/-- `eq_ignore_ascii_case` / `strcasecmp(..) == 0` on NUL-free strings -/
def eqIgnoreCase : Bytes → Bytes → Bool
  | [], [] => true
  | a :: as, b :: bs => asciiLower a == asciiLower b && eqIgnoreCase as bs
  | _, _ => false

def i64Min : Int := -9223372036854775808
def i64Max : Int := 9223372036854775807

end GixModel
